"""Call graph over the program model (class-hierarchy analysis by member name for attribute
calls on receivers of unknown type; exact for module-level names)."""
import ast

from .loader import ClassInfo, FunctionInfo

_members_by_name = {}


def _index_members(P):
    key = id(P)
    if key in _members_by_name:
        return _members_by_name[key]
    idx = {}
    for ci in P.classes.values():
        for name, m in ci.members.items():
            r = P.resolve_member(m)
            if r is None:
                continue
            if r[0] == 'func':
                idx.setdefault(name, set()).add(r[1])
            elif r[0] == 'prop':
                for k in ('fget', 'fset', 'fdel'):
                    if r[1][k] is not None:
                        idx.setdefault(name, set()).add(r[1][k])
                # property returning a bound method
                fget = r[1]['fget']
                rets = [n for n in ast.walk(fget.node) if isinstance(n, ast.Return)]
                if len(rets) == 1 and isinstance(rets[0].value, ast.Attribute) and isinstance(rets[0].value.value, ast.Name) \
                        and fget.params and rets[0].value.value.id == fget.params[0]:
                    for ci2 in P.classes.values():
                        if ci in ci2.mro:
                            mm = P.lookup(ci2, rets[0].value.attr)
                            if mm is not None:
                                rr = P.resolve_member(mm)
                                if rr and rr[0] == 'func':
                                    idx.setdefault(name, set()).add(rr[1])
            elif r[0] == 'numpydesc':
                fi = P.functions.get('dimarray.core.transform.apply_along_axis')
                if fi is not None:
                    idx.setdefault(name, set()).add(fi)
    _members_by_name[key] = idx
    return idx


# attribute names that are far too generic to follow through CHA when the receiver is unknown
# (they are builtin container / ndarray methods in the overwhelming majority of call sites)
GENERIC = {'append', 'insert', 'extend', 'pop', 'remove', 'update', 'keys', 'values', 'items', 'get', 'index',
           'format', 'join', 'split', 'replace', 'startswith', 'endswith', 'tolist', 'astype', 'fill', 'ravel',
           'reshape_', 'item', 'size', 'shape', 'dtype', 'ndim', 'name', 'warn', 'filled'}


def callees(P, fi, follow_generic=False):
    out = set()
    mod = fi.module
    idx = _index_members(P)
    local_defs = {}
    for n in ast.walk(fi.node):
        if isinstance(n, ast.FunctionDef) and n is not fi.node:
            q = fi.qualname + '.<locals>.' + n.name
            if q in P.functions:
                local_defs[n.name] = P.functions[q]
    self_cls = fi.cls
    for node in ast.walk(fi.node):
        if isinstance(node, ast.Call):
            f = node.func
            if isinstance(f, ast.Name):
                if f.id in local_defs:
                    out.add(local_defs[f.id])
                    continue
                r = P.resolve_expr(mod, f)
                _add_resolved(P, r, out)
            elif isinstance(f, ast.Attribute):
                r = P.resolve_expr(mod, f)
                if r is not None and r[0] in ('func', 'class'):
                    _add_resolved(P, r, out)
                    continue
                if f.attr in GENERIC and not follow_generic:
                    continue
                for g in idx.get(f.attr, ()):
                    out.add(g)
        elif isinstance(node, ast.Attribute) and not isinstance(getattr(node, 'ctx', None), ast.Del):
            # property reads / writes
            for g in idx.get(node.attr, ()):
                if g.qualname.endswith('.setter') and not isinstance(node.ctx, ast.Store):
                    continue
                if isinstance(node.ctx, ast.Store) and not g.qualname.endswith('.setter'):
                    continue
                # only properties (not plain methods) are triggered by attribute access
                ci = g.cls
                if ci is not None:
                    base = g.qualname.replace('.setter', '').replace('.deleter', '').rsplit('.', 1)[-1]
                    m = ci.members.get(base)
                    if m is not None and m.kind == 'prop' and node.attr not in GENERIC:
                        out.add(g)
        elif isinstance(node, ast.Subscript):
            names = ['__setitem__'] if isinstance(node.ctx, ast.Store) else ['__delitem__'] if isinstance(node.ctx, ast.Del) else ['__getitem__']
            for nm in names:
                for g in idx.get(nm, ()):
                    out.add(g)
    return out


def _add_resolved(P, r, out):
    if r is None:
        return
    if r[0] == 'func':
        out.add(r[1])
    elif r[0] == 'class':
        m = P.lookup(r[1], '__init__')
        if m is not None and m.kind == 'func':
            out.add(m.value)


def reachable(P, entries, depth=6, follow_generic=False):
    seen = {}
    frontier = [(e, 0) for e in entries]
    while frontier:
        fi, d = frontier.pop()
        if fi in seen and seen[fi] <= d:
            continue
        seen[fi] = d
        if d >= depth:
            continue
        for g in callees(P, fi, follow_generic):
            frontier.append((g, d + 1))
    return sorted(seen, key=lambda f: f.qualname)
