"""Scratch-copy variants for `./check selftest`.

B(...)  breaking edit: still compiles, the named property check must report a VIOLATION.
N(...)  neutral edit (refactoring that preserves behaviour): the check must stay clean.
Edits are located by a source snippet of the *current* tree; a snippet that no longer exists
marks the variant 'stale' (reported, not failed).
"""
VARIANTS = []


def _add(kind, vid, props, file, old, new, why='', **kw):
    if isinstance(props, str):
        props = [props]
    d = dict(id=vid, props=props, file=file, old=old, new=new, why=why, expect=kind)
    d.update(kw)
    VARIANTS.append(d)


def B(vid, props, file, old, new, why='', **kw):
    _add('violation', vid, props, file, old, new, why, **kw)


def N(vid, props, file, old, new, why='', **kw):
    _add('clean', vid, props, file, old, new, why, **kw)


IDX = 'dimarray/core/indexing.py'
BASES = 'dimarray/core/bases.py'
AXES = 'dimarray/core/axes.py'
CLS = 'dimarray/core/dimarraycls.py'
ALIGN = 'dimarray/core/align.py'
OPER = 'dimarray/core/operation.py'
TRANS = 'dimarray/core/transform.py'
RESH = 'dimarray/core/reshape.py'
MISS = 'dimarray/core/missingvalues.py'
DS = 'dimarray/dataset.py'
STATS = 'dimarray/lib/stats.py'

# ------------------------------------------------------------------------------- C02
B('c02-side-start-inc', 'C02', IDX, "istart = np.searchsorted(values, start, side=left)", "istart = np.searchsorted(values, start, side=right)",
  'start bound becomes exclusive on increasing axes')
B('c02-side-stop-inc', 'C02', IDX, "istop = np.searchsorted(values, stop, side=right)", "istop = np.searchsorted(values, stop, side=left)",
  'stop bound becomes exclusive')
B('c02-side-stop-dec', 'C02', IDX, "istop = values.size - np.searchsorted(values[::-1], stop, side=left)",
  "istop = values.size - np.searchsorted(values[::-1], stop, side=right)", 'decreasing axis, stop exclusive')
B('c02-drop-reverse', 'C02', IDX, "istart = values.size - np.searchsorted(values[::-1], start, side=right)",
  "istart = values.size - np.searchsorted(values, start, side=right)", 'searchsorted on an unsorted (decreasing) array')
B('c02-swap-sides-negstep', 'C02', IDX, "        right, left = 'left', 'right'", "        right, left = 'right', 'left'", 'negative step keeps positive-step sides')
B('c02-drop-start-decrement', 'C02', IDX, "            istart -= 1\n            if istart < 0:", "            istart -= 0\n            if istart < 0:",
  'negative step: start not moved onto the last included element')
B('c02-drop-wrap-guard-start', 'C02', IDX, "                istart = -values.size - 1", "                istart = -1", 'wrap-around returns (the F4 defect)')
B('c02-drop-wrap-guard-stop', 'C02', IDX, "            if istop == 0:\n                istop = None   # \n            else:\n                istop -= 1",
  "            istop -= 1", 'stop -1 wraps around')
B('c02-wrong-guard-stop', 'C02', IDX, "            if istop == 0:", "            if istop == 1:", 'guard tests the wrong value')
B('c02-strict-sign', 'C02', IDX, "istop += -1+2*(step is None or step>0)", "istop += -1+2*(step is not None and step>0)", 'strict rule: stop excluded when step is None')
B('c02-strict-drop-correction', 'C02', IDX, "        istop += -1+2*(step is None or step>0)", "        istop += 0", 'strict rule: stop exclusive')
B('c02-dispatch-nonnumeric', 'C02', IDX, "    if not is_numeric(values):\n        return _locate_slice_strict", "    if is_numeric(values) and False:\n        return _locate_slice_strict",
  'non-numeric axes go through the bounding-box branch')
B('c02-dispatch-nonmonotonic', 'C02', IDX, "    if not monotonic:\n        return _locate_slice_strict", "    if not monotonic and False:\n        return _locate_slice_strict",
  'shuffled axes go through searchsorted')
B('c02-typeerror-dropped', 'C02', IDX, "    if stop is not None and not is_numeric(np.asarray(stop)):\n        raise TypeError('numeric slice required for numeric axis')", "    pass",
  'non numeric stop bound accepted')
B('c02-loc-step-dropped', 'C02', BASES, "matches = slice(istart, istop, val.step)", "matches = slice(istart, istop)", 'step lost')
B('c02-loc-swapped', 'C02', BASES, "locate_slice(values, val.start, val.stop, val.step, issorted=issorted)", "locate_slice(values, val.stop, val.start, val.step, issorted=issorted)", 'start/stop swapped')
B('c02-isnumeric-kinds', 'C02', IDX, "    return values.dtype.kind in ('f','i','u')", "    return values.dtype.kind in ('f','u')", 'int axes no longer numeric')
B('c02-monotonic-strict', 'C02', IDX, "def is_increasing_equal(values):\n    return _is_ordered(values, np.greater_equal)", "def is_increasing_equal(values):\n    return _is_ordered(values, np.greater)", '')
B('c02-ordered-operands', 'C02', IDX, "np.all(cmp_(values[1:],values[:-1]))", "np.all(cmp_(values[:-1],values[1:]))", 'direction inverted')
B('c02-empty-axis', 'C02', IDX, "(values.size == 0 or values[-1] >= values[0])", "(values[-1] >= values[0])", 'IndexError on empty axis')
N('c02-n-rename-locals', 'C02', IDX, "istart", "i_begin", 'rename a local', all=True)
N('c02-n-expand-augassign', 'C02', IDX, "                istop -= 1", "                istop = istop - 1", 'x -= 1 -> x = x - 1')
N('c02-n-invert-ifelse', 'C02', IDX, "    if not issorted:\n        inverted_axis = True\n    else:\n        inverted_axis = False", "    if issorted:\n        inverted_axis = False\n    else:\n        inverted_axis = True", 'inverted if/else')
N('c02-n-ternary-stop', 'C02', IDX, "            if istop == 0:\n                istop = None   # \n            else:\n                istop -= 1", "            istop = istop - 1 if istop > 0 else None", 'ternary form of the guard')
N('c02-n-len', 'C02', IDX, "istop = values.size - np.searchsorted(values[::-1], stop, side=left)", "istop = len(values) - np.searchsorted(values[::-1], stop, side=left)", 'len() instead of .size')
N('c02-n-positional-side', 'C02', IDX, "istop = np.searchsorted(values, stop, side=right)", "istop = np.searchsorted(values, stop, right)", 'side passed positionally')

# ------------------------------------------------------------------------------- C01
B('c01-loc-position', 'C01', BASES, "return Indexable(self._getitem, self._setitem, self._delitem, indexing='label')", "return Indexable(self._getitem, self._setitem, self._delitem, indexing='position')", '.loc indexes by position')
B('c01-iloc-label', 'C01', BASES, "        return Indexable(self._getitem, self._setitem, self._delitem, indexing='position')", "        return Indexable(self._getitem, self._setitem, self._delitem, indexing='label')", '.iloc by label')
B('c01-nloc-notol', 'C01', BASES, "indexing='label', tol=np.inf)", "indexing='label')", 'nloc without tolerance')
B('c01-ix-no-toggle', 'C01', BASES, "indexing = 'position' if self._indexing != 'position' else 'label'", "indexing = 'position'", '.ix no longer toggles')
B('c01-sel-iloc', 'C01', BASES, "        return self.loc[indices]", "        return self.iloc[indices]", 'sel uses iloc')
B('c01-indexable-drop-kwargs', 'C01', BASES, "return self.getitem(*self.args, indices=idx, **self.kwargs)", "return self.getitem(*self.args, indices=idx)", 'indexing= lost')
B('c01-guard-removed', 'C01', IDX, "        if matches.size > 0:\n            match = matches[0]\n        else:\n            raise IndexError(\"Element not found in axis: {}\".format(repr(val)))",
  "        match = matches[0] if matches.size > 0 else 0", 'absent label silently returns position 0')
B('c01-wrong-exception', 'C01', IDX, "            raise IndexError(\"Element not found in axis: {}\".format(repr(val)))", "            raise KeyError(\"Element not found in axis: {}\".format(repr(val)))", '')
B('c01-tol-comparator', 'C01', IDX, "        if dist[match] > tol:", "        if dist[match] >= tol:", 'boundary excluded')
B('c01-tol-inverted', 'C01', IDX, "        if dist[match] > tol:", "        if dist[match] < tol:", '')
B('c01-tol-guard-dropped', 'C01', IDX, "        if dist[match] > tol:\n            raise IndexError(\"Did not find element `{}` in the axis with `tol={}`\".format(repr(val), repr(tol)))", "        pass", 'nearest label always used')
B('c01-mode-default-clip', 'C01', BASES, "def loc(self, val, tol=None, issorted=False, mode='raise'):", "def loc(self, val, tol=None, issorted=False, mode='clip'):", '')
B('c01-loc-check-dropped', 'C01', BASES, "                if np.any(test):\n                    raise IndexError(", "                if False:\n                    raise IndexError(", 'mismatch check disabled')
B('c01-loc-check-wrong-values', 'C01', BASES, "                test = values[matches] != val", "                test = values[matches] != values[matches]", 'compares labels with themselves')
B('c01-sorter-dropped', 'C01', IDX, "indices = np.searchsorted(values, val, sorter=isort, side=side)", "indices = np.searchsorted(values, val, side=side)", 'searchsorted on shuffled labels')
B('c01-not-mapped-back', 'C01', IDX, "        matches = isort.take(indices, mode='clip') ", "        matches = indices.clip(0, values.size-1)", 'positions in sorted order returned')
B('c01-broadcast-default', 'C01', BASES, "    _broadcast = False\n\n    # The indexing machinery", "    _broadcast = True\n\n    # The indexing machinery", 'numpy broadcasting by default')
B('c01-mixed-pair', 'C01', BASES, "            axes = self._getaxes_ortho(idx)\n            values = self._getvalues_ortho(idx)", "            axes = self._getaxes_ortho(idx)\n            values = self._getvalues_broadcast(idx)", 'ortho axes with broadcast values')
B('c01-dim-offbyone', 'C01', BASES, "            dim = dims[i]\n", "            dim = dims[i-1]\n", 'index resolved on the previous axis')
B('c01-position-looks-up', 'C01', BASES, "            elif indexing != 'position' and not (type(ix) is slice and ix == slice(None)):", "            elif not (type(ix) is slice and ix == slice(None)):", 'position indices translated as labels')
B('c01-scalar-axis-kept', 'C01', BASES, "            if not np.isscalar(ax): # do not include scalar axes\n                axes.append(ax)", "            axes.append(ax)", '')
B('c01-getaxes-wrong-axis', 'C01', BASES, "            ax = self.axes[i][ix]\n            if not np.isscalar(ax): # do not include scalar axes", "            ax = self.axes[0][ix]\n            if not np.isscalar(ax): # do not include scalar axes", '')
B('c01-subaxis-name', 'C01', AXES, "        newaxis = Axis(values, self.name, tol=self.tol, **self.attrs)", "        newaxis = Axis(values, 'x', tol=self.tol, **self.attrs)", 'sub-axis loses its name')
B('c01-take-values', 'C01', AXES, "        values = self._values.take(indices, mode=mode)\n        return Axis(values, self.name, tol=self.tol, **self.attrs)", "        values = self._values.take(indices, mode=mode)\n        return Axis(self._values, self.name, tol=self.tol, **self.attrs)", 'Axis.take returns all labels')
B('c01-scalar-dispatch', 'C01', BASES, "            matches = locate_one(values, val, tol=tol, issorted=issorted)\n\n        elif val is None:", "            matches = locate_many(values, [val], issorted=issorted)\n\n        elif val is None:", 'scalar label through clip-mode search')
B('c01-orthogonal-indexer-shape', 'C01', CLS, "    def _getvalues_ortho(self, indices):\n        ix = orthogonal_indexer(indices, self.shape)\n        return self.values[ix]", "    def _getvalues_ortho(self, indices):\n        return self.values[indices]", 'numpy fancy indexing instead of orthogonal')
N('c01-n-rename', 'C01', IDX, "matches", "hits", 'rename local', all=True)
N('c01-n-guard-flip', 'C01', IDX, "        if matches.size > 0:\n            match = matches[0]\n        else:\n            raise IndexError(\"Element not found in axis: {}\".format(repr(val)))",
  "        if matches.size == 0:\n            raise IndexError(\"Element not found in axis: {}\".format(repr(val)))\n        match = matches[0]", 'early raise form')
N('c01-n-tol-flip', 'C01', IDX, "        if dist[match] > tol:", "        if tol < dist[match]:", 'operands swapped')
N('c01-n-loc-helper-var', 'C01', BASES, "                ix = self.axes[dim].loc(lix, tol=tol)", "                the_axis = self.axes[dim]\n                ix = the_axis.loc(lix, tol=tol)", 'temporary variable')

# ------------------------------------------------------------------------------- C03
B('c03-copy-dropped', 'C03', BASES, "        if not inplace:\n            self = self.copy()\n\n        # special-case: full-shape boolean indexing (will fail with netCDF4)\n        if self._is_boolean_index_nd(indices):\n            self._setvalues_bool", "        if not inplace:\n            self = self\n\n        # special-case: full-shape boolean indexing (will fail with netCDF4)\n        if self._is_boolean_index_nd(indices):\n            self._setvalues_bool", 'put(inplace=False) writes into the original')
B('c03-shallow-copy', ['C03', 'C15'], BASES, "        if not inplace:\n            self = self.copy()\n\n        # special-case: full-shape boolean indexing (will fail with netCDF4)\n        if self._is_boolean_index_nd(indices):\n            self._setvalues_bool", "        if not inplace:\n            self = self.copy(shallow=True)\n\n        # special-case: full-shape boolean indexing (will fail with netCDF4)\n        if self._is_boolean_index_nd(indices):\n            self._setvalues_bool", 'shallow copy shares the buffer')
B('c03-copy-after-write', 'C03', BASES, "            if broadcast:\n                self._setvalues_broadcast(idx, values, cast=cast)\n            else:\n                self._setvalues_ortho(idx, values, cast=cast)\n\n        if not inplace:\n            return self", "            if broadcast:\n                self._setvalues_broadcast(idx, values, cast=cast)\n            else:\n                self._setvalues_ortho(idx, values, cast=cast)\n\n        if not inplace:\n            return self.copy()", 'returns a copy but wrote the original?')
B('c03-returns-none', 'C03', BASES, "        if not inplace:\n            return self\n\n    __getitem__ = _getitem", "        if not inplace:\n            return None\n\n    __getitem__ = _getitem", '')
B('c03-cast-ignored', 'C03', CLS, "    def _setvalues_ortho(self, indices, newvalues, cast=False):\n        if cast:\n            self._values = _maybe_cast_type(self._values, newvalues)", "    def _setvalues_ortho(self, indices, newvalues, cast=False):\n        if cast and False:\n            self._values = _maybe_cast_type(self._values, newvalues)", 'cast ignored in the ortho writer')
B('c03-cast-after-store', 'C03', CLS, "        if cast:\n            self._values = _maybe_cast_type(self._values, newvalues)\n        ix = orthogonal_indexer(indices, self.shape)\n        self.values[ix] = newvalues", "        ix = orthogonal_indexer(indices, self.shape)\n        self.values[ix] = newvalues\n        if cast:\n            self._values = _maybe_cast_type(self._values, newvalues)", 'widening after the store')
B('c03-cast-not-forwarded', 'C03', BASES, "                self._setvalues_ortho(idx, values, cast=cast)", "                self._setvalues_ortho(idx, values)", 'cast option dropped')
B('c03-write-indexer', 'C03', CLS, "        ix = orthogonal_indexer(indices, self.shape)\n        self.values[ix] = newvalues", "        self.values[indices] = newvalues", 'write path uses numpy fancy indexing, read path orthogonal')
B('c03-setitem-tol', 'C03', BASES, "            idx = self._get_indices(indices, tol=tol, indexing=indexing, axis=axis)", "            idx = self._get_indices(indices, indexing=indexing, axis=axis)", 'tolerance not honoured on writes')
B('c03-setitem-indexing', 'C03', BASES, "            idx = self._get_indices(indices, tol=tol, indexing=indexing, axis=axis)", "            idx = self._get_indices(indices, tol=tol, axis=axis)", '.ix[...] = v writes by label')
B('c03-widen-i-f', 'C03', IDX, "    elif values.dtype.kind == 'i' and dtype.kind == 'f':\n        values = np.asarray(values, dtype=float)", "    elif values.dtype.kind == 'i' and dtype.kind == 'f':\n        pass", 'float into int array truncates')
B('c03-widen-f-into-anything', 'C03', IDX, "    elif values.dtype.kind == 'f' and dtype.kind == 'i':", "    elif values.dtype.kind == 'f':", 'strings assigned to float arrays')
B('c03-widen-object-last', 'C03', IDX, "    else:\n        values = np.asarray(values, dtype=object)\n\n    return values", "    else:\n        values = np.asarray(values, dtype=float)\n\n    return values", 'fallback no longer object')
B('c03-fillna-nocast', 'C03', MISS, "return self.put(_isnan(self.values, na=na), value, cast=True, inplace=inplace)", "return self.put(_isnan(self.values, na=na), value, inplace=inplace)", '')
B('c03-setna-nocast', ['C03', 'C17'], MISS, "return self.put(_matches(self.values, value), na, cast=True, inplace=inplace)", "return self.put(_matches(self.values, value), na, inplace=inplace)", 'setna on int data fails/truncates')
B('c03-values-setter-rebinding', 'C03', CLS, "        self._values = _maybe_cast_type(self._values, newvalues)\n        self._values[:] = newvalues", "        self._values = np.asarray(newvalues)", 'values setter no longer checks shape / writes in place')
B('c03-bool-writer-axes', 'C03', CLS, "        self.values[mask] = newvalues # the default for a numpy array", "        self.values[mask] = newvalues # the default for a numpy array\n        self._attrs = {}", 'writer clears metadata')
N('c03-n-rename', 'C03', BASES, "            idx = self._get_indices(indices, tol=tol, indexing=indexing, axis=axis)\n\n            if broadcast:\n                self._setvalues_broadcast(idx, values, cast=cast)\n            else:\n                self._setvalues_ortho(idx, values, cast=cast)", "            positions = self._get_indices(indices, axis=axis, indexing=indexing, tol=tol)\n\n            if not broadcast:\n                self._setvalues_ortho(positions, values, cast=cast)\n            else:\n                self._setvalues_broadcast(positions, values, cast=cast)", 'rename + reorder keywords + invert if')
N('c03-n-widen-reorder', 'C03', IDX, "    if values.dtype.kind == dtype.kind:\n        pass # same kind\n    elif values.dtype.kind == 'O':\n        pass # or already object", "    if values.dtype.kind == 'O':\n        pass # or already object\n    elif values.dtype.kind == dtype.kind:\n        pass # same kind", 'reordered independent tests')

# ------------------------------------------------------------------------------- C04
B('c04-F5-rtruediv-missing', 'C04', BASES, "    def __rtruediv__(self, other): return self._rbinary_op(np.true_divide, other)\n", "", 'reintroduce F5')
B('c04-F1-in1d', ['C04', 'C06'], AXES, "np.isin(other.values, self.values, invert=True)", "np.in1d(other.values, self.values, invert=True)", 'reintroduce F1')
B('c04-sub-ufunc', 'C04', BASES, "def __sub__(self, other): return self._binary_op(np.subtract, other)", "def __sub__(self, other): return self._binary_op(np.add, other)", '')
B('c04-rsub-order', 'C04', BASES, "def __rsub__(self, other): return self._rbinary_op(np.subtract, other)", "def __rsub__(self, other): return self._binary_op(np.subtract, other)", '2 - a computes a - 2')
B('c04-rpow-ufunc', 'C04', BASES, "def __rpow__(self, other): return self._rbinary_op(np.power, other)", "def __rpow__(self, other): return self._rbinary_op(np.multiply, other)", '')
B('c04-floordiv-true', 'C04', BASES, "def __floordiv__(self, other): return self._binary_op(np.floor_divide, other)", "def __floordiv__(self, other): return self._binary_op(np.true_divide, other)", '')
B('c04-rbinary-order', 'C04', CLS, "return _operation.operation(func, other, self, broadcast=get_option('op.broadcast')", "return _operation.operation(func, self, other, broadcast=get_option('op.broadcast')", 'reflected order lost in DimArray._rbinary_op')
B('c04-align-dropped', 'C04', OPER, "    if reindex:\n        o1, o2 = align_axes((o1, o2))", "    if reindex and False:\n        o1, o2 = align_axes((o1, o2))", 'no label alignment')
B('c04-align-result-unused', 'C04', OPER, "        o1, o2 = align_axes((o1, o2))", "        _o1, _o2 = align_axes((o1, o2))", 'alignment computed but unused')
B('c04-align-swapped', 'C04', OPER, "        o1, o2 = align_axes((o1, o2))", "        o2, o1 = align_axes((o1, o2))", 'operands swapped after alignment')
B('c04-align-inner', 'C04', OPER, "        o1, o2 = align_axes((o1, o2))", "        o1, o2 = align_axes((o1, o2), join='inner')", 'intersection instead of union')
B('c04-aligndims-dropped', 'C04', OPER, "    if broadcast:\n        o1, o2 = align_dims(o1, o2)", "    if broadcast and o1.ndim != o2.ndim:\n        o1, o2 = align_dims(o1, o2)", 'same ndim, different dims -> positional')
B('c04-func-order', 'C04', OPER, "    res = func(o1.values, o2.values)\n\n    return constructor(res, newaxes)", "    res = func(o2.values, o1.values)\n\n    return constructor(res, newaxes)", 'operand order')
B('c04-placeholder-positional', 'C04', OPER, "            newaxes.append(o2.axes[ax.name].copy())", "            newaxes.append(o2.axes[i].copy())", 'placeholder replaced by position')
B('c04-axes-not-copied', ['C04'], OPER, "            newaxes.append(ax.copy())", "            newaxes.append(ax)", 'result shares Axis objects with operand')
B('c04-scalar-order', 'C04', OPER, "        res = func(np.array(o1), o2.values)\n        return constructor(res, o2.axes)", "        res = func(o2.values, np.array(o1))\n        return constructor(res, o2.axes)", '2 - a computes a - 2 (scalar path)')
B('c04-join-default-inner', ['C04', 'C06'], ALIGN, "def align(arrays, join='outer', axis=None , sort=False, strict=False):", "def align(arrays, join='inner', axis=None , sort=False, strict=False):", '')
B('c04-option-default', 'C04', 'dimarray/config.py', "rcParams['op.reindex'] = True", "rcParams['op.reindex'] = False", '')
B('c04-getdims-dup', 'C04', ALIGN, "            if ax.name not in dims:\n                dims.append(ax.name)\n    return dims", "            dims.append(ax.name)\n    return dims", 'duplicate dimension names')
B('c04-attrs-leak', ['C04', 'C16'], OPER, "    return constructor(res, newaxes)", "    return constructor(res, newaxes, **o1.attrs)", 'arithmetic result carries metadata')
N('c04-n-rename', 'C04', OPER, "newaxes", "result_axes", 'rename', all=True)
N('c04-n-list-arg', 'C04', OPER, "        o1, o2 = align_axes((o1, o2))", "        o1, o2 = align_axes([o1, o2])", 'list instead of tuple')
N('c04-n-asarray', 'C04', OPER, "        res = func(o1.values, np.array(o2))", "        other = np.asarray(o2)\n        res = func(o1.values, other)", 'asarray + temp')

# ------------------------------------------------------------------------------- C05
B('c05-F2-copy-false', 'C05', CLS, "            if copy:\n                values = np.array(values, dtype=dtype)\n            else:\n                # no copy unless needed (np.array(..., copy=False) now raises if a copy is needed)\n                values = np.asarray(values, dtype=dtype)", "            values = np.array(values, copy=copy, dtype=dtype)", 'reintroduce F2')
B('c05-F14-axes-setter', 'C05', CLS, "            newaxes = Axes._init(newaxes, shape=self.shape)\n        assert [ax.size for ax in newaxes] == list(self.shape), \"shape mismatch\"", "            newaxes = Axes._init(newaxes, shape=self.shape)\n        else:\n            assert [ax.size for ax in newaxes] == list(self.shape), \"shape mismatch\"", 'reintroduce F14')
B('c05-check-removed', 'C05', CLS, "        if inferred != self.values.shape:", "        if False and inferred != self.values.shape:", 'constructor check disabled')
B('c05-check-before-store', 'C05', CLS, "        self._attrs.update(kwargs)\n        self._values = values\n        self._axes = axes\n", "        self._attrs.update(kwargs)\n", 'stores moved (removed) - check sees nothing')
B('c05-check-wrong-operands', 'C05', CLS, "        inferred = tuple([ax.size for ax in self.axes])\n        if inferred != self.values.shape:", "        inferred = tuple([ax.size for ax in self.axes])\n        if len(inferred) != len(self.values.shape):", 'only ndim compared')
B('c05-dup-name-guard', 'C05', AXES, "        if newax.name in [ax.name for ax in self]:\n            raise ValueError(\"axis name already exist: {}\".format(newax.name))\n", "", 'duplicate names accepted')
B('c05-empty-name', 'C05', AXES, "        if not name:\n            raise ValueError(\"Axis name cannot be empty\")\n", "", '')
B('c05-name-direct-write', 'C05', DS, "            self.axes[i].name = newname", "            self.axes[i]._name = newname", 'name written around the setter')
B('c05-ndim-guard', 'C05', AXES, "    if values.ndim != 1:\n        raise ValueError(\"an Axis object can only be 1-D, got ndim={}\".format(values.ndim))\n", "", '2-D labels accepted')
B('c05-cache-reset-setitem', 'C05', AXES, "        # here could do some additional check about _monotonic and other axis attributes\n        # for now just set to None\n        self._monotonic = None\n", "", 'stale cache after ax[i] = v')
B('c05-cache-reset-setter', 'C05', AXES, "        self._values = values\n        self._monotonic = None\n", "        self._values = values\n", 'stale cache after ax.values = v')
B('c05-cache-true-after-write', 'C05', AXES, "        self._values[item] = value\n\n        # here could do some additional check about _monotonic and other axis attributes\n        # for now just set to None\n        self._monotonic = None", "        self._values[item] = value\n        self._monotonic = True", '')
B('c05-cache-inherit-fancy', 'C05', AXES, "        if self._monotonic and type(item) is slice:", "        if self._monotonic:", 'fancy-indexed sub-axis inherits monotonic flag')
B('c05-direct-values-write', 'C05', TRANS, "        res.values = obj.axes[idx].values[res.values] \n        return res\n\n    # flattened array: tuple of axis values\n    else: # res is ndarray\n        res = np.unravel_index(res, obj.shape)\n        return tuple(obj.axes[i].values[v] for i, v in enumerate(res))\n\n@format_doc(default_axis=\"None\")\n@format_doc(axis=_doc_axis, skipna=_doc_skipna)\ndef argmax", "        res._values = obj.axes[idx].values[res.values] \n        return res\n\n    # flattened array: tuple of axis values\n    else: # res is ndarray\n        res = np.unravel_index(res, obj.shape)\n        return tuple(obj.axes[i].values[v] for i, v in enumerate(res))\n\n@format_doc(default_axis=\"None\")\n@format_doc(axis=_doc_axis, skipna=_doc_skipna)\ndef argmax", 'direct _values write outside the class')
B('c05-axes-insert-inplace', ['C05', 'C15'], RESH, "    axes = self.axes.copy()\n    axes.insert(pos, axis)", "    axes = self.axes\n    self.axes.insert(pos, axis)", 'newaxis inserts into the operand axes list')
B('c05-axes-setitem-size', 'C05', AXES, "        if newax.size != curax.size:\n            raise ValueError(\"set axis: size mismatch.\\nExpected: {}, got: {}\".format(curax.size, newax.size))\n", "", 'axis of another size accepted')
B('c05-values-setter-size', 'C05', AXES, "        if self._values.size != values.size:\n            raise ValueError(\"Invalid size. Expected: {}. Got: {}\".format(self._values.size, values.size))\n", "", '')
B('c05-zeros-fill', 'C05', CLS, "    a = empty(axes, dims, shape, dtype=dtype)\n    a.fill(0)\n    return a", "    a = empty(axes, dims, shape, dtype=dtype)\n    return a", 'zeros returns uninitialised memory')
B('c05-from-arrays-pairing', 'C05', AXES, "        return cls(list(zip(dims, arrays)))", "        return cls(list(zip(reversed(dims), arrays)))", 'names paired with wrong labels')
B('c05-init-axes-untyped', 'C05', AXES, "    elif np.all([isinstance(ax, Axis) for ax in axes]):\n        axes = Axes(axes)", "    elif np.all([isinstance(ax, Axis) for ax in axes]):\n        axes = list(axes)", 'plain list instead of Axes')
B('c05-label-write-outside', 'C05', ALIGN, "        newobj.axes[axis][mask] = values[mask]", "        newobj.axes[axis].values[mask] = values[mask]", 'labels written around Axis.__setitem__ (seeded C06-2/C07-2)')
N('c05-n-rename', 'C05', CLS, "inferred", "sizes", 'rename', all=True)
N('c05-n-assert-to-raise', 'C05', CLS, "        assert [ax.size for ax in newaxes] == list(self.shape), \"shape mismatch\"", "        if [ax.size for ax in newaxes] != list(self.shape):\n            raise ValueError(\"shape mismatch\")", 'assert -> raise')
N('c05-n-setter-order', 'C05', AXES, "        self._values = values\n        self._monotonic = None\n", "        self._monotonic = None\n        self._values = values\n        self._monotonic = None\n", 'extra reset before')

# ------------------------------------------------------------------------------- C06
B('c06-F3-sort-inplace', ['C06'], ALIGN, "            ax = ax.copy() # the common axis may be an input's own Axis object: do not sort it in place\n", "", 'reintroduce F3')
B('c06-invert-dropped', 'C06', AXES, "np.isin(other.values, self.values, invert=True)", "np.isin(other.values, self.values)", 'union keeps only the intersection of other')
B('c06-isin-swapped', 'C06', AXES, "            not_in_self = np.isin(other.values, self.values, invert=True)", "            not_in_self = np.isin(self.values, other.values, invert=True)", 'mask computed over the wrong array')
B('c06-union-dup', 'C06', AXES, "            joined = np.concatenate((self.values, other.values[not_in_self]))", "            joined = np.concatenate((self.values, other.values))", 'labels in both appear twice')
B('c06-union-loses-self', 'C06', AXES, "            joined = np.concatenate((self.values, other.values[not_in_self]))", "            joined = np.concatenate((other.values[not_in_self],))", 'labels of self lost')
B('c06-intersection-other-order', 'C06', AXES, "        newval = self.values[in_other]\n", "        newval = oth\n", 'intersection in the order of other')
B('c06-intersection-not-restricted', 'C06', AXES, "        in_other = np.isin(self.values, oth)\n        newval = self.values[in_other]", "        in_other = np.isin(self.values, self.values)\n        newval = self.values[in_other]", 'intersection returns all of self')
B('c06-inner-outer-swapped', 'C06', ALIGN, "    if join == 'outer':\n        com_axis = ax0.union(ax1)\n    else:\n        com_axis = ax0.intersection(ax1)", "    if join != 'outer':\n        com_axis = ax0.union(ax1)\n    else:\n        com_axis = ax0.intersection(ax1)", '')
B('c06-fold-skips', 'C06', ALIGN, "    ax1 = _common_axis(axes[1:],join)", "    ax1 = _common_axis(axes[-1:],join)", 'fold skips the middle inputs')
B('c06-list-copy-removed', ['C06', 'C15'], ALIGN, "    arrays = [a for a in arrays] # convert to list\n    for i, a in enumerate(arrays):\n        if not isinstance(a, DimArray) and not isinstance(a, Dataset):", "    for i, a in enumerate(arrays):\n        if not isinstance(a, DimArray) and not isinstance(a, Dataset):", 'caller list modified')
B('c06-skip-guard', 'C06', ALIGN, "            if ax.name not in o.dims: \n                continue\n            if np.all(o.axes[ax.name] == ax):", "            if np.all(o.axes[ax.name] == ax):", 'arrays lacking the dim are reindexed')
B('c06-loop-swap', ['C06', 'C04'], ALIGN, "    for ax in axes:\n        for i, o in enumerate(arrays):\n            if ax.name not in o.dims: \n                continue\n            if np.all(o.axes[ax.name] == ax):\n                continue\n            arrays[i] = o.reindex_axis(ax)", "    for i, o in enumerate(arrays):\n        for ax in axes:\n            if ax.name not in o.dims: \n                continue\n            if np.all(o.axes[ax.name] == ax):\n                continue\n            arrays[i] = o.reindex_axis(ax)", 'seeded C04-1: stale alias')
B('c06-sort-reverse', 'C06', ALIGN, "            ax.sort()\n", "            ax.sort(kind='stable')\n", 'sort called with arguments')
B('c06-axis-copy-shallow', ['C06', 'C15'], AXES, "        return copy.deepcopy(self) # deep copy: everything in the definition is copied", "        ax = Axis(self._values, self.name, tol=self._tol, **self._attrs)\n        ax._monotonic = self._monotonic\n        return ax", 'seeded C06-1')
B('c06-join-not-forwarded', 'C06', ALIGN, "    axes = _get_aligned_axes(arrays, axis=axis, join=join, sort=sort, strict=strict)", "    axes = _get_aligned_axes(arrays, axis=axis, sort=sort, strict=strict)", 'inner join ignored')
B('c06-monotonic-reverse-dropped', 'C06', AXES, "np.union1d(self.values, other.values)", "np.intersect1d(self.values, other.values)", 'sorted branch computes the intersection')
N('c06-n-rename', 'C06', AXES, "not_in_self", "extra", 'rename', all=True)
N('c06-n-loop-var', 'C06', ALIGN, "    for ax in axes:\n        for i, o in enumerate(arrays):\n            if ax.name not in o.dims: \n                continue\n            if np.all(o.axes[ax.name] == ax):\n                continue\n            arrays[i] = o.reindex_axis(ax)", "    for common in axes:\n        for k, arr in enumerate(arrays):\n            if common.name not in arr.dims: \n                continue\n            if np.all(arr.axes[common.name] == common):\n                continue\n            arrays[k] = arr.reindex_axis(common)", 'rename loop variables')
N('c06-n-list-call', 'C06', ALIGN, "    arrays = [a for a in arrays] # convert to list", "    arrays = list(arrays) # convert to list", 'list() instead of comprehension')

# ------------------------------------------------------------------------------- C07
B('c07-position-dropped', 'C07', ALIGN, "    newobj = self.take_axis(indices, axis, indexing='position')", "    newobj = self.take_axis(indices, axis)", 'positions looked up as labels')
B('c07-cast-dropped', 'C07', ALIGN, "newobj.put(mask, fill_value, axis=axis, inplace=True, indexing=\"position\", cast=True)", "newobj.put(mask, fill_value, axis=axis, inplace=True, indexing=\"position\")", 'int data cannot hold NaN')
B('c07-put-axis-dropped', 'C07', ALIGN, "newobj.put(mask, fill_value, axis=axis, inplace=True, indexing=\"position\", cast=True)", "newobj.put(mask, fill_value, inplace=True, indexing=\"position\", cast=True)", 'fill along the first axis')
B('c07-put-label-mode', 'C07', ALIGN, "newobj.put(mask, fill_value, axis=axis, inplace=True, indexing=\"position\", cast=True)", "newobj.put(mask, fill_value, axis=axis, inplace=True, cast=True)", '')
B('c07-mask-other-indices', 'C07', ALIGN, "    mask = ax.values.take(indices) != values", "    mask = ax.values != values", 'mask not computed from the located positions')
B('c07-relabel-unmasked', 'C07', ALIGN, "        newobj.axes[axis][mask] = values[mask]", "        newobj.axes[axis][mask] = values[:mask.sum()]", 'wrong labels written')
B('c07-relabel-dropped', 'C07', ALIGN, "        newobj.axes[axis][mask] = values[mask]\n", "", 'axis keeps neighbouring labels')
B('c07-relabel-raw', ['C07', 'C06'], ALIGN, "        newobj.axes[axis][mask] = values[mask]", "        newobj.axes[axis].values[mask] = values[mask]", 'seeded C07-2 / C06-2')
B('c07-fill-when-method', 'C07', ALIGN, "        if method is None:\n            newobj.put(", "        if True:\n            newobj.put(", 'fill although method given')
B('c07-raise-after-fill', 'C07', ALIGN, "        if raise_error:\n            raise IndexError(\"Some values where not found in the axis: {}\".format(values[mask]))\n        if method is None:", "        if raise_error and method is not None:\n            raise IndexError(\"Some values where not found in the axis: {}\".format(values[mask]))\n        if method is None:", 'raise_error ignored when method is None')
B('c07-side-default', 'C07', ALIGN, "side=method or 'left')", "side=method or 'right')", '')
B('c07-locate-wrong-axis', 'C07', ALIGN, "    ax = self.axes[axis]\n    # indices = ax.loc(values, mode='clip', side=method)", "    ax = self.axes[0]\n    # indices = ax.loc(values, mode='clip', side=method)", 'labels searched on the first axis')
B('c07-axis-override-dropped', 'C07', ALIGN, "        values = newaxis.values\n        axis = newaxis.name\n    elif np.isscalar(values)", "        values = newaxis.values\n    elif np.isscalar(values)", 'Axis argument does not select its dimension')
B('c07-fill-default', 'C07', ALIGN, "def reindex_axis(self, values, axis=0, fill_value=np.nan, raise_error=False, method=None):", "def reindex_axis(self, values, axis=0, fill_value=0, raise_error=False, method=None):", '')
B('c07-take-axis-pos', 'C07', CLS, "        values = self.values.take(indices, axis=pos, mode=mode, out=out)", "        values = self.values.take(indices, axis=0, mode=mode, out=out)", 'take along axis 0')
B('c07-take-axis-newax', 'C07', CLS, "        newax = ax.take(indices, mode=mode)\n        newaxes = [axx.copy() if axx.name!=ax.name else newax for axx in axes]", "        newax = ax.take(indices, mode=mode)\n        newaxes = [axx.copy() if axx.name!=ax.name else ax for axx in axes]", 'axis not subsampled')
B('c07-reindex-like-self', 'C07', ALIGN, "            obj = obj.reindex_axis(newaxis, axis=ax.name, **kwargs)", "            obj = self.reindex_axis(newaxis, axis=ax.name, **kwargs)", 'seeded C07-1')
B('c07-reindex-like-kwargs', 'C07', ALIGN, "            obj = obj.reindex_axis(newaxis, axis=ax.name, **kwargs)", "            obj = obj.reindex_axis(newaxis, axis=ax.name)", 'fill_value/method dropped')
B('c07-reindex-like-labels', 'C07', ALIGN, "            newaxis = axes[ax.name].values\n            obj = obj.reindex_axis(newaxis, axis=ax.name, **kwargs)", "            newaxis = axes[0].values\n            obj = obj.reindex_axis(newaxis, axis=ax.name, **kwargs)", 'labels of another dimension')
N('c07-n-rename', 'C07', ALIGN, "newobj", "result", 'rename', all=True)
N('c07-n-temp-labels', 'C07', ALIGN, "    indices = locate_many(ax.values, values, side=method or 'left')", "    labels = ax.values\n    indices = locate_many(labels, values, side=method or 'left')", 'temporary')
N('c07-n-kw-order', 'C07', ALIGN, "newobj.put(mask, fill_value, axis=axis, inplace=True, indexing=\"position\", cast=True)", "newobj.put(mask, fill_value, cast=True, indexing=\"position\", inplace=True, axis=axis)", 'keyword order')

# ------------------------------------------------------------------------------- C08
B('c08-F16-percentile-attrs', ['C08', 'C16'], STATS, "    results.attrs.update(a.attrs) # keep metadata, like the other along-axis transforms\n", "", 'reintroduce F16')
B('c08-filter-by-position', 'C08', TRANS, "        newaxes = [ax for ax in obj.axes if ax.name != name]", "        newaxes = [ax for i, ax in enumerate(obj.axes) if i != idx]", 'seeded C08-1: negative positions')
B('c08-filter-other-name', 'C08', TRANS, "        newaxes = [ax for ax in obj.axes if ax.name != name]", "        newaxes = [ax for ax in obj.axes if ax.name != obj.dims[0]]", 'always drops the first axis')
B('c08-axis-kw', 'C08', TRANS, "    kwargs['axis'] = idx # only pass axis, not skipna", "    kwargs['axis'] = 0 # only pass axis, not skipna", 'reduces along axis 0')
B('c08-attrs-dropped', ['C08', 'C16'], TRANS, "    newobj = obj._constructor(result, newaxes, **obj.attrs)\n\n    # add stamp", "    newobj = obj._constructor(result, newaxes)\n\n    # add stamp", 'metadata lost')
B('c08-name-from-other-resolution', 'C08', BASES, "        name = self.axes[idx].name\n        return idx, name", "        name = self.axes[0].name\n        return idx, name", 'name of another axis')
B('c08-str-resolution', 'C08', BASES, "            idx = self.dims.index(axis)\n\n        elif type(axis) is int:", "            idx = len(self.dims) - 1 - self.dims[::-1].index(axis)\n\n        elif type(axis) is int:", 'unusual but equivalent? no: flagged as unknown')
B('c08-deal-insert', ['C08', 'C11'], TRANS, "        idx = 0\n        newobj = obj.flatten(axis, insert=idx)", "        idx = 0\n        newobj = obj.flatten(axis, insert=1)", 'group inserted at 1 but reduced at 0')
B('c08-deal-name', 'C08', TRANS, "        ax = newobj.axes[0]\n        name = ax.name", "        ax = newobj.axes[-1]\n        name = ax.name", 'wrong axis name for tuple axis')
B('c08-skipna-swapped', 'C08', TRANS, "    if skipna:\n\n        # check if present in bottleneck", "    if not skipna:\n\n        # check if present in bottleneck", 'NaN policy inverted')
B('c08-median-plain', 'C08', TRANS, "    if funcname == 'median':\n        return _median_with_nan", "    if funcname == 'medians':\n        return _median_with_nan", 'median ignores NaNs with skipna=False')
B('c08-masked-asarray', 'C08', TRANS, "            result = result.filled(np.nan)", "            result = np.asarray(result)", 'seeded C08-2')
B('c08-mask-dropped', 'C08', TRANS, "            values = np.ma.array(values, mask=np.isnan(values))", "            values = np.ma.array(values)", 'NaNs not masked')
B('c08-desc-wrong-name', 'C08', TRANS, 'var = _NumpyDesc("var")', 'var = _NumpyDesc("std")', 'a.var() computes std')
B('c08-desc-swapped-on-class', 'C08', CLS, "    min = _transform.min\n    max = _transform.max", "    min = _transform.max\n    max = _transform.min", '')
B('c08-percentile-axis', 'C08', STATS, "    results = np.percentile(a.values, pct, axis=pos, out=out, overwrite_input=overwrite_input)", "    results = np.percentile(a.values, pct, axis=0, out=out, overwrite_input=overwrite_input)", '')
B('c08-percentile-keys', 'C08', STATS, "        results = da.stack(results, keys=pct, axis=newaxis) # stack in a larger DimArray", "        results = da.stack(results, axis=newaxis) # stack in a larger DimArray", 'percentile axis labelled 0..n')
B('c08-percentile-subaxes', 'C08', STATS, "    subaxes = [ax for ax in a.axes if ax.name != nm]", "    subaxes = [ax for ax in a.axes[1:]]", '')
N('c08-n-rename', 'C08', TRANS, "newaxes", "kept_axes", 'rename', all=True)
N('c08-n-filter-operands', 'C08', TRANS, "        newaxes = [ax for ax in obj.axes if ax.name != name]", "        newaxes = [a_x for a_x in obj.axes if name != a_x.name]", 'operands swapped + rename')

# ------------------------------------------------------------------------------- C09
B('c09-recursion-scheme', 'C09', TRANS, "obj = obj.diff(n=n-1, axis=idx, scheme=scheme, keepaxis=keepaxis)", "obj = obj.diff(n=n-1, axis=idx, keepaxis=keepaxis)", 'seeded C09-1')
B('c09-recursion-keepaxis', 'C09', TRANS, "obj = obj.diff(n=n-1, axis=idx, scheme=scheme, keepaxis=keepaxis)", "obj = obj.diff(n=n-1, axis=idx, scheme=scheme)", '')
B('c09-recursion-n', 'C09', TRANS, "obj = obj.diff(n=n-1, axis=idx, scheme=scheme, keepaxis=keepaxis)", "obj = obj.diff(n=n-2, axis=idx, scheme=scheme, keepaxis=keepaxis)", 'skips one order')
B('c09-argmax-setitem', 'C09', TRANS, "        res.values = obj.axes[idx].values[res.values] \n        return res\n\n    # flattened array: tuple of axis values\n    else: # res is ndarray\n        res = np.unravel_index(res, obj.shape)\n        return tuple(obj.axes[i].values[v] for i, v in enumerate(res))\n\n#", "        res.values[:] = obj.axes[idx].values[res.values] \n        return res\n\n    # flattened array: tuple of axis values\n    else: # res is ndarray\n        res = np.unravel_index(res, obj.shape)\n        return tuple(obj.axes[i].values[v] for i, v in enumerate(res))\n\n#", 'seeded C09-2 (argmax only)')
B('c09-both-setitem', 'C09', TRANS, "        res.values = obj.axes[idx].values[res.values] ", "        res.values[:] = obj.axes[idx].values[res.values] ", 'both twins', all=True)
B('c09-arg-wrong-axis', 'C09', TRANS, "        res.values = obj.axes[idx].values[res.values] ", "        res.values = obj.axes[0].values[res.values] ", 'labels of axis 0', all=True)
B('c09-unravel-shape', 'C09', TRANS, "        res = np.unravel_index(res, obj.shape)", "        res = np.unravel_index(res, obj.shape[::-1])", '', all=True)
B('c09-forward-slice', 'C09', TRANS, "            newaxis = oldaxis[:-1]", "            newaxis = oldaxis[1:]", 'forward drops the first label')
B('c09-backward-slice', 'C09', TRANS, "            newaxis = oldaxis[1:]\n\n    elif scheme == \"centered\":", "            newaxis = oldaxis[:-1]\n\n    elif scheme == \"centered\":", '')
B('c09-pad-side', 'C09', TRANS, "            result = _append_nans(result, axis=idx, first=True)", "            result = _append_nans(result, axis=idx)", 'backward keepaxis pads at the end')
B('c09-pad-axis', 'C09', TRANS, "            result = _append_nans(result, axis=idx)\n            newaxis = oldaxis.copy()\n\n        # otherwise just shorten the axis\n        else:\n            newaxis = oldaxis[:-1]", "            result = _append_nans(result, axis=0)\n            newaxis = oldaxis.copy()\n\n        # otherwise just shorten the axis\n        else:\n            newaxis = oldaxis[:-1]", '')
B('c09-midpoint-weights', 'C09', TRANS, "axisvalues = 0.5*(oldaxis.values[:-1]+oldaxis.values[1:])", "axisvalues = 0.5*(oldaxis.values[:-1]+oldaxis.values[:-1])", 'not midpoints')
B('c09-centered-keepaxis', 'C09', TRANS, "            raise ValueError(\"keepaxis=True is not compatible with centered differences\")", "            newaxis = oldaxis.copy()", 'silently wrong shape')
B('c09-append-order', 'C09', TRANS, "    if first:\n        result = np.concatenate((nan_slice, result), axis=axis)", "    if first:\n        result = np.concatenate((result, nan_slice), axis=axis)", '')
B('c09-diff-axis', 'C09', TRANS, "    result = np.diff(obj.values, axis=idx)", "    result = np.diff(obj.values, axis=-1)", 'always last axis')
B('c09-cumsum-default-axis', 'C09', TRANS, "def cumsum(a, axis=-1, skipna=False):", "def cumsum(a, axis=0, skipna=False):", '')
B('c09-cumprod-name', 'C09', TRANS, "    return apply_along_axis(a, 'cumprod', axis=axis, skipna=skipna)", "    return apply_along_axis(a, 'cumsum', axis=axis, skipna=skipna)", '')
B('c09-cum-branch', 'C09', TRANS, "        newaxes = obj.axes.copy() \n\n    # diff: reduce axis size by one", "        newaxes = obj.axes[1:] \n\n    # diff: reduce axis size by one", 'cumulative result loses an axis')
N('c09-n-rename', 'C09', TRANS, "oldaxis", "previous_axis", 'rename', all=True)
N('c09-n-midpoint-form', 'C09', TRANS, "axisvalues = 0.5*(oldaxis.values[:-1]+oldaxis.values[1:])", "axisvalues = (oldaxis.values[:-1]+oldaxis.values[1:])/2.", 'other spelling of the midpoint')

# ------------------------------------------------------------------------------- C10
B('c10-axes-other-perm', 'C10', RESH, "    newaxes = [self.axes[i] for i in newshape]\n    return self._constructor(result, newaxes, **self.attrs)", "    newaxes = [self.axes[i] for i in sorted(newshape)]\n    return self._constructor(result, newaxes, **self.attrs)", 'axes not permuted')
B('c10-values-not-permuted', 'C10', RESH, "    result = self.values.transpose(newshape)", "    result = self.values.transpose()", 'values reversed, axes permuted')
B('c10-transpose-attrs', ['C10', 'C16'], RESH, "    newaxes = [self.axes[i] for i in newshape]\n    return self._constructor(result, newaxes, **self.attrs)", "    newaxes = [self.axes[i] for i in newshape]\n    return self._constructor(result, newaxes)", 'metadata lost')
B('c10-swapaxes-same', 'C10', RESH, "        if i == axis1:\n            newshape.append(axis2)\n        elif i == axis2:\n            newshape.append(axis1)", "        if i == axis1:\n            newshape.append(axis2)\n        elif i == axis2:\n            newshape.append(axis2)", 'not a permutation')
B('c10-swapaxes-unresolved', 'C10', RESH, "    pos, _ = self._get_axes_info([axis1, axis2])\n    axis1, axis2 = pos  # axis positions", "    pos, _ = self._get_axes_info([axis1, axis2])", 'names compared with positions')
B('c10-rollaxis-moveaxis', 'C10', RESH, "    newshape = np.rollaxis(fake, axis, start).shape", "    newshape = np.moveaxis(fake, axis, start).shape", 'seeded C10-1')
B('c10-rollaxis-unresolved', 'C10', RESH, "    axis, _ = self._get_axis_info(axis) # position\n", "", 'axis name passed to numpy')
B('c10-newaxis-pos', 'C10', RESH, "    axes.insert(pos, axis)", "    axes.insert(pos+1, axis)", 'axis inserted one position later than the values dimension')
B('c10-newaxis-minus1', 'C10', RESH, "    if pos == -1: pos = len(self.dims)", "    if pos == -1: pos = len(self.dims) - 1", '')
B('c10-newaxis-guard', 'C10', RESH, "    if name in self.dims:\n        raise ValueError(\"dimension already present: \"+name)\n", "", 'duplicate dimension')
B('c10-squeeze-other-axis', 'C10', RESH, "        res = self.values.squeeze(idx)\n        newaxes = [ax for ax in self.axes if ax.name != name or ax.size != 1] ", "        res = self.values.squeeze(idx)\n        newaxes = [ax for ax in self.axes if ax.size != 1] ", 'values lose one singleton, axes lose all')
B('c10-squeeze-nonsingleton', 'C10', RESH, "        newaxes = [ax for ax in self.axes if ax.name != name or ax.size != 1] ", "        newaxes = [ax for ax in self.axes if ax.name != name] ", '')
B('c10-repeat-position', 'C10', RESH, "    newaxes[idx] = newaxis\n", "    newaxes[0] = newaxis\n", 'relabels axis 0')
B('c10-repeat-count', 'C10', RESH, "    newvalues = self.values.repeat(np.size(values), idx)", "    newvalues = self.values.repeat(np.size(values) - 1, idx)", '')
B('c10-repeat-guard', 'C10', RESH, "    if self.axes[idx].size != 1:\n        raise ValueError(\"can only repeat singleton axes\")\n", "", 'repeat of a non-singleton axis')
B('c10-broadcast-positional', 'C10', RESH, "            newobj = newobj.repeat(newaxis.values, axis=newaxis.name)", "            newobj = newobj.repeat(newaxis.values, axis=0)", 'repeats by position')
B('c10-broadcast-guard', 'C10', RESH, "        if newobj.axes[newaxis.name].size == 1 and newaxis.size != 1:", "        if newobj.axes[newaxis.name].size == 1:", 'singleton target repeated as well (label lost? still size 1)')
B('c10-reshape-set-exit', ['C10', 'C11'], RESH, "    if tuple(newdims) == self.dims:\n        return self", "    if set(newdims) == set(self.dims):\n        return self", 'seeded C10-2')
B('c10-aligndims-first', 'C10', ALIGN, "    newdims = get_dims(*arrays) \n", "    newdims = get_dims(arrays[0]) \n", 'only the first array dims')
B('c10-broadcast-arrays-nocheck', 'C10', ALIGN, "    # now broadcast each DimArray along commmon axes\n    newarrays = []\n    for o in arrays:\n        o = o.broadcast(axes)", "    # now broadcast each DimArray along commmon axes\n    newarrays = []\n    for o in arrays:\n        o = o.broadcast(arrays[0].axes)", 'broadcast onto the first array axes')
B('c10-getaxes-no-raise', ['C10', 'C12'], ALIGN, "            if not (axis.size == 1 or np.all(axis.values==common_axis.values)):\n                raise ValueError(\"axes are not aligned\")", "            if not (axis.size == 1 or axis.size == common_axis.size):\n                raise ValueError(\"axes are not aligned\")", 'only sizes compared')
N('c10-n-rename', 'C10', RESH, "newshape", "perm", 'rename', all=True)
N('c10-n-squeeze-cond', 'C10', RESH, "        newaxes = [ax for ax in self.axes if ax.name != name or ax.size != 1] ", "        newaxes = [a for a in self.axes if a.name != name or a.size != 1] ", 'rename comprehension variable')

# ------------------------------------------------------------------------------- C11
B('c11-F11-no-clamp', 'C11', RESH, "    insert = min(insert, self.ndim - n) # the group cannot start beyond that position\n", "", 'reintroduce F11')
B('c11-F12-rename-shared', ['C11', 'C15'], RESH, "    o = o._constructor(o.values, [ax.copy() for ax in o.axes], **o.attrs)\n", "", 'reintroduce F12')
B('c11-guard-narrowed', 'C11', RESH, "    if dims != self.dims[insert:insert+len(dims)]:", "    if n > 1 and dims != self.dims[insert:insert+n]:", 'seeded C11-1')
B('c11-guard-window', 'C11', RESH, "    if dims != self.dims[insert:insert+len(dims)]:", "    if dims != self.dims[insert:insert+len(dims)+1][:len(dims)] and dims[0] != self.dims[insert]:", 'guard too weak')
B('c11-order-F', 'C11', RESH, "    newvalues = self.values.reshape(newshape)\n\n    # Define the new array", "    newvalues = self.values.reshape(newshape, order='F')\n\n    # Define the new array", 'values regrouped in Fortran order')
B('c11-meshgrid-xy', 'C11', AXES, '    kwargs = dict(indexing="ij")', '    kwargs = dict(indexing="xy")', 'labels enumerated in xy order')
B('c11-ravel-F', 'C11', AXES, "zip(*[g.ravel() for g in grd])", "zip(*[g.ravel('F') for g in grd])", '')
B('c11-members-order', 'C11', RESH, "    newaxis = MultiAxis(*[ax for ax in self.axes if ax.name in dims])", "    newaxis = MultiAxis(*[self.axes[d] for d in sorted(dims)])", 'members sorted by name')
B('c11-insert-mismatch', 'C11', RESH, "    newaxes.insert(insert, newaxis)\n", "    newaxes.insert(0, newaxis)\n", 'grouped axis always first')
B('c11-unflatten-shape-k', 'C11', RESH, "    newshape = self.shape[:axis] + tuple(ax.size for ax in group.axes) + self.shape[axis+1:]", "    newshape = self.shape[:axis] + tuple(ax.size for ax in group.axes)[::-1] + self.shape[axis+1:]", 'member sizes reversed')
B('c11-unflatten-all-self', 'C11', RESH, "            obj = obj.unflatten(axis=axis)\n        return obj", "            obj = self.unflatten(axis=axis)\n        return obj", 'only the last grouped axis expanded')
B('c11-reshape-squeeze-all', 'C11', RESH, "            o = o.squeeze(dim)", "            o = o.squeeze()", 'seeded C11-2')
B('c11-reshape-newaxis-pos', 'C11', RESH, "            o = o.newaxis(dim, pos=i)", "            o = o.newaxis(dim, pos=0)", 'singletons always first')
B('c11-reshape-flatten-insert', 'C11', RESH, "            o = o.flatten(d.split(','), insert=i)", "            o = o.flatten(d.split(','))", 'group not placed at its index')
B('c11-reshape-order', 'C11', RESH, "    # Transpose array to match existing dimensions\n    if transpose:\n        o = o.transpose([dim for dim in newdims_unflattened if dim in o.dims])\n", "", 'no transposition')
B('c11-multiaxis-order', 'C11', AXES, "        self.axes = Axes(axes)\n        self._name", "        self.axes = Axes(axes[::-1])\n        self._name", 'members reversed')
N('c11-n-rename', 'C11', RESH, "newvalues", "regrouped", 'rename', all=True)
N('c11-n-len', 'C11', RESH, "    if dims != self.dims[insert:insert+len(dims)]:", "    if dims != self.dims[insert:insert+n]:", 'n instead of len(dims)')

# ------------------------------------------------------------------------------- C12
B('c12-F6-stack-positional', 'C12', ALIGN, "    # inputs are matched by dimension name: same dimensions in another order are transposed\n    arrays = [a if a.dims == arrays[0].dims or set(a.dims) != set(arrays[0].dims)\n              else a.transpose(arrays[0].dims) for a in arrays]\n\n    # make it a numpy array", "    # make it a numpy array", 'reintroduce F6 (stack)')
B('c12-F6-concat-positional', 'C12', ALIGN, "    # inputs are matched by dimension name: same dimensions in another order are transposed\n    arrays = [a if a.dims == arrays[0].dims or set(a.dims) != set(arrays[0].dims)\n              else a.transpose(arrays[0].dims) for a in arrays]\n\n    values = np.concatenate", "    values = np.concatenate", 'reintroduce F6 (concatenate)')
B('c12-F7-dict-views', 'C12', ALIGN, "        if keys is None: keys = list(arrays.keys())\n        arrays = list(arrays.values())", "        if keys is None: keys = arrays.keys()\n        arrays = arrays.values()", 'reintroduce F7')
B('c12-values-before-normalise', 'C12', ALIGN, "    # inputs are matched by dimension name: same dimensions in another order are transposed\n    arrays = [a if a.dims == arrays[0].dims or set(a.dims) != set(arrays[0].dims)\n              else a.transpose(arrays[0].dims) for a in arrays]\n\n    values = np.concatenate([a.values for a in arrays], axis=axis)\n", "    values = np.concatenate([a.values for a in arrays], axis=axis)\n\n    # inputs are matched by dimension name: same dimensions in another order are transposed\n    arrays = [a if a.dims == arrays[0].dims or set(a.dims) != set(arrays[0].dims)\n              else a.transpose(arrays[0].dims) for a in arrays]\n", 'seeded C12-1')
B('c12-getaxes-update-rule', 'C12', ALIGN, "            if common_axis is None or (common_axis.size==1 and axis.size > 1):", "            if common_axis is None or (common_axis.size==1 or axis.size > 1):", 'seeded C12-2')
B('c12-getaxes-dropped', 'C12', ALIGN, "    try: \n        axes = _get_axes(*arrays)\n    except ValueError as msg: \n        if 'axes are not aligned' in repr(msg):\n            msg = 'axes are not aligned\\n ==> Try passing `align=True`' \n        raise ValueError(msg)", "    axes = arrays[0].axes", 'no alignment check at all')
B('c12-error-swallowed', 'C12', ALIGN, "            msg = 'axes are not aligned\\n ==> Try passing `align=True`' \n        raise ValueError(msg)", "            msg = 'axes are not aligned\\n ==> Try passing `align=True`' \n        axes = arrays[0].axes", 'exception swallowed')
B('c12-check-loop-skipped', 'C12', ALIGN, "    if not align and not _no_check:\n        # check that other axes match", "    if not align and _no_check:\n        # check that other axes match", 'check loop never runs for normal calls')
B('c12-check-by-position', 'C12', ALIGN, "                if not np.all(a.axes[ax.name].values == ax.values):", "                if not np.all(a.axes[0].values == ax.values):", 'secondary axes matched by position')
B('c12-strict-dropped', 'C12', ALIGN, "    if align:\n        kwargs['strict'] = True\n        for ax in arrays[0].axes:", "    if align:\n        for ax in arrays[0].axes:", 'arrays lacking a dim silently pass')
B('c12-concat-axis-k', 'C12', ALIGN, "    newaxes = subaxes[:axis] + [newaxis] + subaxes[axis:]", "    newaxes = [newaxis] + subaxes", 'concatenated axis always first')
B('c12-concat-labels-order', 'C12', ALIGN, "    newaxis = _concatenate_axes([a.axes[axis] for a in arrays])", "    newaxis = _concatenate_axes([a.axes[axis] for a in arrays[::-1]])", 'labels reversed order')
B('c12-stack-keys', 'C12', ALIGN, "    newaxis = Axis(keys, axis)\n", "    newaxis = Axis(np.arange(len(arrays)), axis)\n", 'keys ignored')
B('c12-stack-axis-last', 'C12', ALIGN, "    newaxes = [newaxis] + axes\n", "    newaxes = axes + [newaxis]\n", 'new axis last but data first')
B('c12-stackaxis-existing', 'C12', ALIGN, "    if axis in dims:\n        raise ValueError(\"please provide an axis name which does not \\\n                already exist, or use `concatenate`\")\n    return axis", "    return axis", 'existing name accepted')
B('c12-nocheck-leak', 'C12', 'dimarray/core/dimarraycls.py', "        dim_array = stack(items, keys=label0, axis=dim0, align=align)", "        dim_array = stack(items, keys=label0, axis=dim0, align=align) if True else concatenate(items, _no_check=True)", 'second caller of _no_check')
B('c12-concataxes-names', 'C12', ALIGN, "    if len({ax.name for ax in axes}) != 1: \n        print(axes)\n        raise ValueError(\"axis names differ!\")\n", "", 'axes of different names concatenated')
N('c12-n-rename', 'C12', ALIGN, "subaxes", "others", 'rename', all=True)
N('c12-n-normalise-form', 'C12', ALIGN, "    arrays = [a if a.dims == arrays[0].dims or set(a.dims) != set(arrays[0].dims)\n              else a.transpose(arrays[0].dims) for a in arrays]\n\n    # make it a numpy array", "    arrays = [b if b.dims == arrays[0].dims or set(b.dims) != set(arrays[0].dims)\n              else b.transpose(arrays[0].dims) for b in arrays]\n\n    # make it a numpy array", 'comprehension variable renamed')
