"""Scenario tables: abstract interpretation of one library function on a finite set of abstract argument forms.

The rules of sa/props read the *structure* of the code (terms, events, guards).  What they do not see is the plain plumbing of argument handling - `if len(dims) == 1
and type(dims[0]) in (list, tuple)`, `keys = list(arrays.keys())`, a default that is 0 rather than 1 - and one-site mutation analysis (tools/mutate.py) shows that the
pinned test suite does not see it either.  A scenario table closes that gap without running the library: the function's syntax tree is interpreted by the small
interpreter below on *abstract* arguments - a DimArray that only knows its dimension names, sizes and a token for its data; an Axis that knows its name, its size and a
token for its labels; plain Python lists / tuples / dicts / strings for the argument forms themselves - and the outcome (which object is built from which tokens in
which order, or which exception is raised) is compared with a frozen table (sa/tables/scenarios/*.json).  NumPy is never called: every NumPy function and every method of
an abstract object returns a symbolic token recording its arguments.  The table entries were generated once from the pinned tree by tools/gen_scenarios.py and reviewed
against the property statements; a behaviour-preserving rewrite interprets to the same outcomes (the comparison is on outcomes, not on code), a changed outcome is a
VIOLATION naming the scenario, and a construct the interpreter does not model is ANALYSIS-ERROR (exit 2), never a silent pass.

Values: Python ints / strs / bools / None / lists / tuples / dicts / sets / slices (really computed), Obj (abstract object: attrs, methods, hooks), Sym (symbolic token),
Fn (closure over a syntax tree), TypeV (a class or type used in isinstance / type() tests)."""
import ast
import itertools

from .absint import Undecided, Raised


class Sym(object):
    """symbolic token: ('call', f, args, kwargs) / ('attr', base, name) / ('sub', base, index) / ('op', name, a, b) / ('tok', name)"""
    __slots__ = ('t',)

    def __init__(self, *t):
        self.t = t

    def __repr__(self):
        return render(self)

    def __eq__(self, other):
        return isinstance(other, Sym) and render(self) == render(other)

    def __hash__(self):
        return hash(render(self))


class TypeV(object):
    def __init__(self, name, bases=(), ctor=None):
        self.name = name
        self.bases = tuple(bases)
        self.ctor = ctor              # callable(interp, args, kwargs) building the abstract instance (a scenario's model of the class)

    def __repr__(self):
        return '<type %s>' % self.name

    def __eq__(self, other):
        return isinstance(other, TypeV) and other.name == self.name

    def __hash__(self):
        return hash(('TypeV', self.name))


class Obj(object):
    """abstract object supplied by a scenario. attrs: name -> value; methods: name -> callable(interp, obj, args, kwargs); types: class names isinstance answers True for;
    hooks getitem(interp, obj, key) / setitem / iter(interp, obj) / length / call(interp, obj, args, kwargs) / contains(interp, obj, x) / truth"""
    def __init__(self, name, types=(), attrs=None, methods=None, **hooks):
        self.name = name
        self.types = tuple(types)
        self.attrs = dict(attrs or {})
        self.methods = dict(methods or {})
        self.hooks = hooks

    def __repr__(self):
        return '<%s>' % self.name


class It(object):
    """a one-shot iterator (zip, map, filter, enumerate, reversed, a generator) or a dict view: can be iterated, has no len() (iterator) and no [i]"""
    def __init__(self, items, kind='iterator', name='iterator'):
        self.items, self.kind, self.name, self.used = list(items), kind, name, False


class Fn(object):
    def __init__(self, node, env, glob, name=None):
        self.node, self.env, self.glob, self.name = node, env, glob, name or getattr(node, 'name', '<lambda>')


class Bound(object):
    """a repository function bound to an abstract receiver (method call on an Obj whose class method is interpreted)"""
    def __init__(self, fn, recv):
        self.fn, self.recv = fn, recv


class _Break(Exception):
    pass


class _Continue(Exception):
    pass


class _Return(Exception):
    def __init__(self, value):
        self.value = value


EXC_PARENTS = {'IndexError': 'LookupError', 'KeyError': 'LookupError', 'LookupError': 'Exception', 'ValueError': 'Exception', 'TypeError': 'Exception',
               'AttributeError': 'Exception', 'AssertionError': 'Exception', 'ZeroDivisionError': 'ArithmeticError', 'ArithmeticError': 'Exception',
               'NotImplementedError': 'RuntimeError', 'RuntimeError': 'Exception', 'StopIteration': 'Exception', 'ImportError': 'Exception', 'Exception': 'BaseException',
               'RecursionError': 'RuntimeError', 'OverflowError': 'ArithmeticError', 'NameError': 'Exception', 'UnicodeError': 'ValueError'}
BUILTIN_TYPES = ('list', 'tuple', 'dict', 'set', 'frozenset', 'str', 'int', 'float', 'bool', 'slice', 'object', 'complex', 'bytes', 'range', 'type')
PYTYPE = {list: 'list', tuple: 'tuple', dict: 'dict', set: 'set', frozenset: 'frozenset', str: 'str', int: 'int', float: 'float', bool: 'bool', slice: 'slice',
          type(None): 'NoneType', range: 'range'}


def exc_matches(name, handler_names):
    name = name.split('.')[-1]
    for h in handler_names:
        h = h.split('.')[-1]
        n = name
        while n is not None:
            if n == h:
                return True
            n = EXC_PARENTS.get(n)
        if h in ('Exception', 'BaseException') and name not in ('KeyboardInterrupt', 'SystemExit'):
            return True
    return False


def render(v, depth=0):
    """canonical text of an outcome"""
    if depth > 40:
        return '...'
    d = depth + 1
    if isinstance(v, Sym):
        t = v.t
        if t[0] == 'tok':
            return str(t[1])
        if t[0] == 'attr':
            return '%s.%s' % (render(t[1], d), t[2])
        if t[0] == 'sub':
            return '%s[%s]' % (render(t[1], d), render(t[2], d))
        if t[0] == 'call':
            if isinstance(t[1], str) and t[1].endswith('.transpose') and len(t[2]) == 1 and not t[3] and isinstance(t[2][0], (list, tuple)) \
                    and list(t[2][0]) == list(range(len(t[2][0]))):
                return t[1][:-len('.transpose')]          # the identity permutation is no transposition
            args = [render(a, d) for a in t[2]] + ['%s=%s' % (k, render(x, d)) for k, x in sorted(t[3].items())]
            return '%s(%s)' % (render(t[1], d) if not isinstance(t[1], str) else t[1], ', '.join(args))
        if t[0] == 'op':
            return '(%s)' % (' %s ' % t[1]).join(render(a, d) for a in t[2:])
        return 'SYM' + repr(tuple(render(x, d) if not isinstance(x, str) else x for x in t))
    if isinstance(v, Obj):
        r = v.hooks.get('render')
        return r(v) if r else v.name
    if isinstance(v, It):
        return '<%s of %s>' % (v.name, render(v.items, d))
    if isinstance(v, Fn):
        return '<function %s>' % v.name
    if isinstance(v, Bound):
        return '<bound %s of %s>' % (v.fn.name, render(v.recv, d))
    if isinstance(v, TypeV):
        return v.name
    if isinstance(v, (list, tuple)):
        # (lists and tuples read the same: which of the two an internal call is handed is not behaviour)
        return '[' + ', '.join(render(x, d) for x in v) + ']'
    if isinstance(v, dict):
        return '{' + ', '.join('%s: %s' % (render(k, d), render(x, d)) for k, x in v.items()) + '}'
    if isinstance(v, (set, frozenset)):
        return '{' + ', '.join(sorted(render(x, d) for x in v)) + '}'
    if isinstance(v, slice):
        return 'slice(%s, %s, %s)' % (render(v.start, d), render(v.stop, d), render(v.step, d))
    if callable(v) and not isinstance(v, type):
        return '<builtin %s>' % getattr(v, '__name__', '?')
    return repr(v)


def has_abstract(v, depth=0):
    if isinstance(v, (Sym, Obj, Fn, Bound, TypeV, It)):
        return True
    if depth > 6:
        return False
    if isinstance(v, (list, tuple, set, frozenset)):
        return any(has_abstract(x, depth + 1) for x in v)
    if isinstance(v, dict):
        return any(has_abstract(k, depth + 1) or has_abstract(x, depth + 1) for k, x in v.items())
    return False


class SInterp(object):
    """interpreter of one function body over abstract values. `glob(name)` resolves a global name (returns a value or raises KeyError); `oracle(sym)` may decide
    the truth of a symbolic condition (returns bool or None)."""
    def __init__(self, glob, oracle=None, steps=60000, max_depth=25):
        self.glob = glob
        self.oracle = oracle
        self.steps = steps
        self.depth = 0
        self.max_depth = max_depth

    # ------------------------------------------------------------------ helpers
    def tick(self):
        self.steps -= 1
        if self.steps < 0:
            raise Undecided('step budget exceeded')

    def pyerr(self, e):
        raise Raised(type(e).__name__)

    def truth(self, v):
        if isinstance(v, Sym):
            if self.oracle is not None:
                r = self.oracle(v)
                if r is not None:
                    return bool(r)
            raise Undecided('truth value of %s' % render(v)[:120])
        if isinstance(v, Obj):
            h = v.hooks.get('truth')
            if h is not None:
                return bool(h(self, v))
            n = v.hooks.get('length')
            if n is not None:
                return (n(self, v) if callable(n) else n) > 0
            return True
        if isinstance(v, (Fn, Bound, TypeV)):
            return True
        if isinstance(v, It):
            return True if v.kind == 'iterator' else bool(v.items)
        try:
            return bool(v)
        except Exception as e:
            self.pyerr(e)

    def iterate(self, v):
        if isinstance(v, (list, tuple, range, str)):
            return list(v)
        if isinstance(v, dict):
            return list(v.keys())
        if isinstance(v, (set, frozenset)):
            return sorted(v, key=render)
        if isinstance(v, It):
            if v.kind == 'iterator':
                if v.used:
                    return []
                v.used = True
            return list(v.items)
        if isinstance(v, Obj):
            h = v.hooks.get('iter')
            if h is not None:
                return list(h(self, v))
            raise Raised('TypeError')
        if isinstance(v, Sym):
            raise Undecided('iteration over %s' % render(v)[:100])
        if v is None or isinstance(v, (int, float, bool)):
            raise Raised('TypeError')
        try:
            return list(v)                     # dict views, zip objects, ... of concrete values
        except Exception as e:
            self.pyerr(e)

    def length(self, v):
        if isinstance(v, It):
            if v.kind == 'view':
                return len(v.items)
            raise Raised('TypeError')
        if isinstance(v, Obj):
            n = v.hooks.get('length')
            if n is None:
                raise Raised('TypeError')
            return n(self, v) if callable(n) else n
        if isinstance(v, Sym):
            raise Undecided('len of %s' % render(v)[:100])
        try:
            return len(v)
        except Exception as e:
            self.pyerr(e)

    def typeof(self, v):
        if isinstance(v, Obj):
            return TypeV(v.types[0] if v.types else v.name)
        if isinstance(v, Sym):
            if v.t[0] == 'exc':
                return TypeV(v.t[1])
            return TypeV('ndarray')            # symbolic tokens stand for arrays (labels, data, results of NumPy calls)
        if isinstance(v, (Fn, Bound)):
            return TypeV('function')
        if isinstance(v, TypeV):
            return TypeV('type')
        if isinstance(v, It):
            return TypeV(v.name)
        return TypeV(PYTYPE.get(type(v), type(v).__name__))

    def isinstance_(self, v, t):
        ts = list(t) if isinstance(t, (tuple, list)) else [t]
        names = set()
        for x in ts:
            if isinstance(x, TypeV):
                names.add(x.name.split('.')[-1])
            elif isinstance(x, Sym):
                names.add(render(x).split('.')[-1])
            else:
                raise Undecided('isinstance against %s' % render(x))
        if isinstance(v, Obj):
            return bool(set(x.split('.')[-1] for x in v.types) & names) or 'object' in names
        if isinstance(v, Sym):
            return bool(names & {'ndarray', 'object'})
        if isinstance(v, (Fn, Bound)):
            return bool(names & {'object', 'function'})
        if isinstance(v, It):
            return bool(names & {'object', v.name})
        mro = {bool: ['bool', 'int', 'object'], int: ['int', 'object'], float: ['float', 'object'], str: ['str', 'object'], list: ['list', 'object'],
               tuple: ['tuple', 'object'], dict: ['dict', 'object'], set: ['set', 'object'], frozenset: ['frozenset', 'object'], slice: ['slice', 'object'],
               type(None): ['NoneType', 'object'], range: ['range', 'object']}.get(type(v))
        if mro is None:
            mro = [type(v).__name__, 'object']
        if 'integer' in names and isinstance(v, int) and not isinstance(v, bool):
            return False            # np.integer: Python ints are not NumPy integers
        return bool(set(mro) & names)

    # ------------------------------------------------------------------ statements
    def block(self, stmts, env):
        for st in stmts:
            self.stmt(st, env)

    def stmt(self, st, env):
        self.tick()
        if isinstance(st, ast.Expr):
            if not isinstance(st.value, ast.Constant):
                self.expr(st.value, env)
        elif isinstance(st, ast.Assign):
            v = self.expr(st.value, env)
            for t in st.targets:
                self.assign(t, v, env)
        elif isinstance(st, ast.AnnAssign):
            if st.value is not None:
                self.assign(st.target, self.expr(st.value, env), env)
        elif isinstance(st, ast.AugAssign):
            cur = self.expr(self._load(st.target), env)
            v = self.binop(st.op, cur, self.expr(st.value, env))
            self.assign(st.target, v, env)
        elif isinstance(st, ast.Return):
            raise _Return(self.expr(st.value, env) if st.value is not None else None)
        elif isinstance(st, ast.If):
            self.block(st.body if self.truth(self.expr(st.test, env)) else st.orelse, env)
        elif isinstance(st, ast.For):
            broke = False
            it_v = self.expr(st.iter, env)
            live = len(it_v) if isinstance(it_v, (dict, set)) else None
            # a list is walked by position, live: an element removed during the walk makes the next one slip past
            live_list = it_v if isinstance(it_v, list) else (it_v.attrs['_list'] if isinstance(it_v, Obj) and isinstance(it_v.attrs.get('_list'), list) and 'iter' in it_v.hooks else None)

            def walk():
                if live_list is None:
                    for x_ in self.iterate(it_v):
                        yield x_
                    return
                i_ = 0
                while i_ < len(live_list):
                    yield live_list[i_]
                    i_ += 1
            for x in walk():
                self.tick()
                if live is not None and len(it_v) != live:
                    raise Raised('RuntimeError')             # dictionary / set changed size during iteration
                self.assign(st.target, x, env)
                try:
                    self.block(st.body, env)
                except _Break:
                    broke = True
                    break
                except _Continue:
                    continue
            if live is not None and not broke and len(it_v) != live:
                raise Raised('RuntimeError')
            if not broke:
                self.block(st.orelse, env)
        elif isinstance(st, ast.While):
            broke = False
            while self.truth(self.expr(st.test, env)):
                self.tick()
                try:
                    self.block(st.body, env)
                except _Break:
                    broke = True
                    break
                except _Continue:
                    continue
            if not broke:
                self.block(st.orelse, env)
        elif isinstance(st, ast.Break):
            raise _Break()
        elif isinstance(st, ast.Continue):
            raise _Continue()
        elif isinstance(st, ast.FunctionDef):
            env[st.name] = Fn(st, env, None)
        elif isinstance(st, ast.Raise):
            if st.exc is None:
                raise Raised(env.get('__active_exception__', 'RuntimeError'))
            if isinstance(st.exc, ast.Call):
                name = ast.unparse(st.exc.func)
                for a in st.exc.args:          # the message may itself fail to evaluate (that failure is what is raised)
                    try:
                        self.expr(a, env)
                    except Undecided:
                        pass
            else:
                name = ast.unparse(st.exc)
                if isinstance(st.exc, ast.Name) and st.exc.id in env and isinstance(env[st.exc.id], Sym) and env[st.exc.id].t[0] == 'exc':
                    name = env[st.exc.id].t[1]
            raise Raised(name.split('.')[-1])
        elif isinstance(st, ast.Try):
            self.try_(st, env)
        elif isinstance(st, ast.Assert):
            if not self.truth(self.expr(st.test, env)):
                raise Raised('AssertionError')
        elif isinstance(st, (ast.Pass, ast.Global, ast.Nonlocal)):
            return
        elif isinstance(st, (ast.Import, ast.ImportFrom)):
            for a in st.names:
                nm = a.asname or a.name.split('.')[0]
                try:
                    env[nm] = self.glob(nm)
                except KeyError:
                    env[nm] = Sym('tok', a.name if isinstance(st, ast.Import) else nm)
        elif isinstance(st, ast.Delete):
            for t in st.targets:
                if isinstance(t, ast.Subscript):
                    c, i = self.expr(t.value, env), self.expr(t.slice, env)
                    if isinstance(c, Obj) and 'delitem' in c.hooks:
                        c.hooks['delitem'](self, c, i)
                    elif isinstance(c, (dict, list)):
                        try:
                            del c[i]
                        except Exception as e:
                            self.pyerr(e)
                    else:
                        raise Undecided('del on %s' % render(c)[:80])
                elif isinstance(t, ast.Name):
                    env.pop(t.id, None)
                else:
                    raise Undecided('del target')
        elif isinstance(st, ast.With):
            for item in st.items:
                v = self.expr(item.context_expr, env)
                if item.optional_vars is not None:
                    self.assign(item.optional_vars, v, env)
            self.block(st.body, env)
        else:
            raise Undecided('unsupported statement %s' % st.__class__.__name__)

    @staticmethod
    def _load(t):
        t2 = ast.parse(ast.unparse(t), mode='eval').body
        return t2

    def try_(self, st, env):
        try:
            try:
                self.block(st.body, env)
            except Raised as r:
                for h in st.handlers:
                    names = None
                    if h.type is None:
                        names = ['BaseException']
                    elif isinstance(h.type, ast.Tuple):
                        names = [ast.unparse(x) for x in h.type.elts]
                    else:
                        names = [ast.unparse(h.type)]
                    if exc_matches(r.name, names):
                        if h.name:
                            env[h.name] = Sym('exc', r.name)
                        saved = env.get('__active_exception__')
                        env['__active_exception__'] = r.name
                        try:
                            self.block(h.body, env)
                        finally:
                            if saved is None:
                                env.pop('__active_exception__', None)
                            else:
                                env['__active_exception__'] = saved
                        break
                else:
                    raise
            else:
                self.block(st.orelse, env)
        finally:
            if st.finalbody:
                self.block(st.finalbody, env)

    def assign(self, t, v, env):
        if isinstance(t, ast.Name):
            env[t.id] = v
        elif isinstance(t, (ast.Tuple, ast.List)):
            vals = self.iterate(v)
            stars = [i for i, e in enumerate(t.elts) if isinstance(e, ast.Starred)]
            if stars:
                k = stars[0]
                after = len(t.elts) - k - 1
                if len(vals) < len(t.elts) - 1:
                    raise Raised('ValueError')
                for e, x in zip(t.elts[:k], vals[:k]):
                    self.assign(e, x, env)
                self.assign(t.elts[k].value, list(vals[k:len(vals) - after]), env)
                for e, x in zip(t.elts[k + 1:], vals[len(vals) - after:]):
                    self.assign(e, x, env)
            else:
                if len(vals) != len(t.elts):
                    raise Raised('ValueError')
                for e, x in zip(t.elts, vals):
                    self.assign(e, x, env)
        elif isinstance(t, ast.Subscript):
            c = self.expr(t.value, env)
            i = self.index(t.slice, env)
            if isinstance(c, Obj):
                h = c.hooks.get('setitem')
                if h is None:
                    raise Undecided('item store on %s' % render(c))
                h(self, c, i, v)
            elif isinstance(c, (dict, list)):
                if isinstance(c, list) and isinstance(i, slice) and isinstance(v, (Obj, It)):
                    v = self.iterate(v)                 # slice assignment takes the items of any iterable
                try:
                    c[i] = v
                except Exception as e:
                    self.pyerr(e)
            elif isinstance(c, tuple):
                raise Raised('TypeError')
            else:
                raise Undecided('item store on %s' % render(c)[:80])
        elif isinstance(t, ast.Attribute):
            o = self.expr(t.value, env)
            if isinstance(o, Obj):
                h = o.hooks.get('setattr')
                if h is not None:
                    h(self, o, t.attr, v)
                else:
                    o.attrs[t.attr] = v
            else:
                raise Undecided('attribute store on %s' % render(o)[:80])
        elif isinstance(t, ast.Starred):
            self.assign(t.value, v, env)
        else:
            raise Undecided('unsupported assignment target')

    def index(self, s, env):
        if isinstance(s, ast.Slice):
            return slice(self.expr(s.lower, env) if s.lower else None, self.expr(s.upper, env) if s.upper else None, self.expr(s.step, env) if s.step else None)
        return self.expr(s, env)

    # ------------------------------------------------------------------ expressions
    def name(self, id_, env):
        if id_ in env:
            return env[id_]
        scope = env.get('__enclosing__')
        while scope is not None:
            if id_ in scope:
                return scope[id_]
            scope = scope.get('__enclosing__')
        if id_ in ('True', 'False', 'None'):
            return {'True': True, 'False': False, 'None': None}[id_]
        g = env.get('__glob__') or self.glob
        try:
            return g(id_)
        except KeyError:
            pass
        if id_ in BUILTIN_TYPES:
            return TypeV(id_)
        if id_ in BUILTINS:
            return ('builtin', id_)
        if id_ in EXC_PARENTS or id_ in ('BaseException', 'Warning', 'UserWarning', 'FutureWarning', 'DeprecationWarning'):
            return TypeV(id_)
        if id_ == 'Ellipsis':
            return Ellipsis
        raise Raised('NameError')

    def expr(self, e, env):
        self.tick()
        if isinstance(e, ast.Constant):
            return e.value
        if isinstance(e, ast.Name):
            return self.name(e.id, env)
        if isinstance(e, ast.Attribute):
            return self.getattr_(self.expr(e.value, env), e.attr)
        if isinstance(e, (ast.Tuple, ast.List, ast.Set)):
            vals = []
            for x in e.elts:
                if isinstance(x, ast.Starred):
                    vals.extend(self.iterate(self.expr(x.value, env)))
                else:
                    vals.append(self.expr(x, env))
            if isinstance(e, ast.Tuple):
                return tuple(vals)
            if isinstance(e, ast.Set):
                try:
                    return set(vals)
                except TypeError:
                    raise Raised('TypeError')
            return vals
        if isinstance(e, ast.Dict):
            d = {}
            for k, v in zip(e.keys, e.values):
                if k is None:
                    m = self.expr(v, env)
                    if not isinstance(m, dict):
                        raise Undecided('** of %s' % render(m)[:60])
                    d.update(m)
                else:
                    try:
                        d[self.expr(k, env)] = self.expr(v, env)
                    except TypeError:
                        raise Raised('TypeError')
            return d
        if isinstance(e, (ast.ListComp, ast.GeneratorExp, ast.SetComp, ast.DictComp)):
            return self.comp(e, env)
        if isinstance(e, ast.Lambda):
            fn = ast.FunctionDef(name='<lambda>', args=e.args, body=[ast.Return(value=e.body)], decorator_list=[], returns=None, type_comment=None, type_params=[])
            ast.copy_location(fn, e)
            ast.fix_missing_locations(fn)
            return Fn(fn, env, None)
        if isinstance(e, ast.Subscript):
            return self.getitem(self.expr(e.value, env), self.index(e.slice, env))
        if isinstance(e, ast.BinOp):
            return self.binop(e.op, self.expr(e.left, env), self.expr(e.right, env))
        if isinstance(e, ast.UnaryOp):
            v = self.expr(e.operand, env)
            if isinstance(e.op, ast.Not):
                return not self.truth(v)
            if isinstance(v, (Sym, Obj)):
                return Sym('op', {ast.USub: 'neg', ast.UAdd: 'pos', ast.Invert: 'invert'}[type(e.op)], v)
            try:
                return {ast.USub: lambda x: -x, ast.UAdd: lambda x: +x, ast.Invert: lambda x: ~x}[type(e.op)](v)
            except Exception as ex:
                self.pyerr(ex)
        if isinstance(e, ast.BoolOp):
            is_and = isinstance(e.op, ast.And)
            v = is_and
            for x in e.values:
                v = self.expr(x, env)
                if self.truth(v) != is_and:
                    return v
            return v
        if isinstance(e, ast.Compare):
            left = self.expr(e.left, env)
            for op, c in zip(e.ops, e.comparators):
                right = self.expr(c, env)
                r = self.compare(op, left, right)
                if not self.truth(r):
                    return r
                left = right
            return True
        if isinstance(e, ast.IfExp):
            return self.expr(e.body if self.truth(self.expr(e.test, env)) else e.orelse, env)
        if isinstance(e, ast.Call):
            return self.call(e, env)
        if isinstance(e, ast.JoinedStr):
            parts = []
            for x in e.values:
                if isinstance(x, ast.Constant):
                    parts.append(str(x.value))
                else:
                    try:
                        parts.append(render(self.expr(x.value, env)))
                    except Undecided:
                        parts.append('?')
            return ''.join(parts)
        if isinstance(e, ast.Starred):
            raise Undecided('starred expression')
        if isinstance(e, ast.NamedExpr):
            v = self.expr(e.value, env)
            self.assign(e.target, v, env)
            return v
        raise Undecided('unsupported expression %s' % e.__class__.__name__)

    def comp(self, e, env):
        out = []
        is_dict = isinstance(e, ast.DictComp)

        def rec(gi, env2):
            if gi == len(e.generators):
                out.append((self.expr(e.key, env2), self.expr(e.value, env2)) if is_dict else self.expr(e.elt, env2))
                return
            g = e.generators[gi]
            for x in self.iterate(self.expr(g.iter, env2)):
                self.tick()
                env3 = dict(env2)
                env3['__enclosing__'] = env2.get('__enclosing__')
                self.assign(g.target, x, env3)
                if all(self.truth(self.expr(c, env3)) for c in g.ifs):
                    rec(gi + 1, env3)
        rec(0, _child(env))
        if is_dict:
            try:
                return dict(out)
            except TypeError:
                raise Raised('TypeError')
        if isinstance(e, ast.SetComp):
            try:
                return set(out)
            except TypeError:
                raise Raised('TypeError')
        if isinstance(e, ast.GeneratorExp):
            return It(out, name='generator')
        return out

    def getattr_(self, o, attr, default=KeyError):
        if isinstance(o, Obj):
            if attr in o.attrs:
                return o.attrs[attr]
            if attr in o.methods:
                return ('method', o, attr)
            h = o.hooks.get('getattr')
            if h is not None:
                r = h(self, o, attr)
                if r is not KeyError:
                    return r
            if default is not KeyError:
                return default
            if o.hooks.get('open'):
                return Sym('attr', o, attr)
            raise Raised('AttributeError')
        if isinstance(o, Sym):
            return Sym('attr', o, attr)
        if isinstance(o, TypeV) and o.name == 'dict' and attr == 'fromkeys':
            return lambda itp, a, k: dict.fromkeys(itp.iterate(a[0]), *(a[1:2]))
        if isinstance(o, TypeV) and o.name in ('list', 'dict', 'str', 'tuple') and getattr(o, 'getattr', None) is None:
            meth = getattr({'list': list, 'dict': dict, 'str': str, 'tuple': tuple}[o.name], attr, None)
            if meth is not None:
                def unbound(itp, a, k, attr=attr, meth=meth, tname=o.name):
                    raw = '_' + tname
                    if a and isinstance(a[0], Obj) and raw in a[0].attrs and tname in ('list', 'dict'):
                        # list.append(self, x) inside a subclass of list: the primitive, on the object's own storage
                        if attr == '__init__':
                            a[0].attrs[raw] = [] if tname == 'list' else {}
                            if len(a) > 1:
                                (a[0].attrs[raw].extend if tname == 'list' else a[0].attrs[raw].update)(itp.iterate(a[1]) if tname == 'list' else a[1])
                            return None
                        try:
                            return meth(a[0].attrs[raw], *a[1:], **k)
                        except Exception as e:
                            itp.pyerr(e)
                    return itp.apply(itp.getattr_(a[0], attr), list(a[1:]), k)
                return unbound
        if isinstance(o, TypeV):
            h = getattr(o, 'getattr', None)
            if h is not None:
                r = h(self, o, attr)
                if r is not KeyError:
                    return r
            return Sym('attr', Sym('tok', o.name), attr)
        if isinstance(o, (Fn, Bound)):
            if attr == '__name__':
                return o.name if isinstance(o, Fn) else o.fn.name
            raise Raised('AttributeError')
        if isinstance(o, tuple) and o and o[0] in ('builtin', 'method'):
            if attr == '__name__':
                return o[-1]
            raise Raised('AttributeError')
        if isinstance(o, (str, list, tuple, dict, set, frozenset, int, float, slice)) or o is None:
            if hasattr(o, attr):
                if attr in ('start', 'stop', 'step', 'real', 'imag'):
                    return getattr(o, attr)
                return ('pymethod', o, attr)
            if default is not KeyError:
                return default
            raise Raised('AttributeError')
        raise Undecided('attribute %s of %s' % (attr, render(o)[:60]))

    def getitem(self, c, i):
        if isinstance(c, It):
            raise Raised('TypeError')
        if isinstance(c, Obj):
            h = c.hooks.get('getitem')
            if h is None:
                if c.hooks.get('open'):
                    return Sym('sub', c, i)
                raise Raised('TypeError')
            return h(self, c, i)
        if isinstance(c, Sym):
            return Sym('sub', c, i)
        if isinstance(i, (Sym, Obj)):
            if isinstance(c, dict):
                try:
                    if i in c:
                        return c[i]
                except TypeError:
                    raise Raised('TypeError')
                raise Raised('KeyError')
            raise Undecided('index %s into a concrete container' % render(i)[:60])
        try:
            return c[i]
        except Exception as e:
            self.pyerr(e)

    def binop(self, op, a, b):
        name = {ast.Add: '+', ast.Sub: '-', ast.Mult: '*', ast.Div: '/', ast.FloorDiv: '//', ast.Mod: '%', ast.Pow: '**', ast.BitOr: '|', ast.BitAnd: '&',
                ast.BitXor: '^', ast.LShift: '<<', ast.RShift: '>>', ast.MatMult: '@'}[type(op)]
        if name == '+' and isinstance(a, Obj) and isinstance(b, Obj) and 'iter' in a.hooks and 'iter' in b.hooks:
            return self.iterate(a) + self.iterate(b)
        if isinstance(a, (Sym, Obj)) or isinstance(b, (Sym, Obj)):
            if isinstance(a, (list, tuple)) or isinstance(b, (list, tuple)):
                if name == '+' and isinstance(a, Obj) and 'iter' in a.hooks and isinstance(b, list):
                    return self.iterate(a) + b
                if name == '+' and isinstance(b, Obj) and 'iter' in b.hooks and isinstance(a, list):
                    return a + self.iterate(b)
                raise Raised('TypeError')
            if isinstance(a, str) and name == '%':
                return a
            return Sym('op', name, a, b)
        if isinstance(a, str) and name == '%':
            # %-formatting: computed when every operand is concrete (default axis names "x%d" % i); a message about abstract objects keeps its template
            if isinstance(b, (int, float, str, bool)) or b is None or (isinstance(b, tuple) and all(isinstance(x, (int, float, str, bool)) or x is None for x in b)):
                try:
                    return a % b
                except Exception as e:
                    self.pyerr(e)
            return a
        try:
            import operator
            f = {'+': operator.add, '-': operator.sub, '*': operator.mul, '/': operator.truediv, '//': operator.floordiv, '%': operator.mod, '**': operator.pow,
                 '|': operator.or_, '&': operator.and_, '^': operator.xor, '<<': operator.lshift, '>>': operator.rshift}[name]
            return f(a, b)
        except KeyError:
            raise Undecided('operator ' + name)
        except Exception as e:
            self.pyerr(e)

    def compare(self, op, a, b):
        if isinstance(op, (ast.Is, ast.IsNot)):
            if isinstance(a, Sym) or isinstance(b, Sym):
                if a is None or b is None:
                    r = False            # a token stands for an existing object
                elif isinstance(a, Sym) and isinstance(b, Sym):
                    r = a == b
                else:
                    r = False
            elif isinstance(a, TypeV) or isinstance(b, TypeV):
                r = isinstance(a, TypeV) and isinstance(b, TypeV) and a.name.split('.')[-1] == b.name.split('.')[-1]
            elif isinstance(a, (bool, type(None))) or isinstance(b, (bool, type(None))) or isinstance(a, Obj) or isinstance(b, Obj):
                r = a is b
            elif isinstance(a, (int, str)) and isinstance(b, (int, str)):
                r = type(a) is type(b) and a == b
            else:
                r = a is b
            return r if isinstance(op, ast.Is) else not r
        if isinstance(op, (ast.In, ast.NotIn)):
            if isinstance(b, Obj):
                h = b.hooks.get('contains')
                if h is not None:
                    r = bool(h(self, b, a))
                elif 'iter' in b.hooks:
                    r = any(self._eq(a, x) for x in self.iterate(b))
                else:
                    raise Raised('TypeError')
            elif isinstance(b, Sym):
                return Sym('op', 'in' if isinstance(op, ast.In) else 'not in', a, b)
            elif isinstance(b, It):
                r = any(self._eq(a, x) for x in self.iterate(b))
            elif isinstance(b, (list, tuple, set, frozenset)):
                r = any(self._eq(a, x) for x in b)
            elif isinstance(b, dict):
                try:
                    r = a in b
                except TypeError:
                    raise Raised('TypeError')
            elif isinstance(b, str):
                if not isinstance(a, str):
                    raise Raised('TypeError')
                r = a in b
            else:
                raise Raised('TypeError')
            return r if isinstance(op, ast.In) else not r
        if isinstance(op, (ast.Eq, ast.NotEq)):
            if isinstance(a, Obj) and 'eq' in a.hooks:
                r = a.hooks['eq'](self, a, b)
            elif isinstance(b, Obj) and 'eq' in b.hooks:
                r = b.hooks['eq'](self, b, a)
            elif isinstance(a, Sym) or isinstance(b, Sym):
                if isinstance(a, Sym) and isinstance(b, Sym) and a == b:
                    r = True
                else:
                    return Sym('op', '==' if isinstance(op, ast.Eq) else '!=', a, b)
            else:
                r = self._eq(a, b)
            if isinstance(r, Sym):
                return r if isinstance(op, ast.Eq) else Sym('op', 'not', r)
            return r if isinstance(op, ast.Eq) else not r
        sym = {ast.Lt: '<', ast.LtE: '<=', ast.Gt: '>', ast.GtE: '>='}[type(op)]
        if isinstance(a, (Sym, Obj)) or isinstance(b, (Sym, Obj)):
            return Sym('op', sym, a, b)
        try:
            return {'<': a < b, '<=': a <= b, '>': a > b, '>=': a >= b}[sym] if True else None
        except Exception as e:
            self.pyerr(e)

    def _eq(self, a, b):
        if isinstance(a, (Obj, Fn, Bound)) or isinstance(b, (Obj, Fn, Bound)):
            if isinstance(a, Obj) and 'eq' in a.hooks:
                return bool(self.truth(a.hooks['eq'](self, a, b)))
            if isinstance(b, Obj) and 'eq' in b.hooks:
                return bool(self.truth(b.hooks['eq'](self, b, a)))
            return a is b
        if isinstance(a, TypeV) or isinstance(b, TypeV):
            return isinstance(a, TypeV) and isinstance(b, TypeV) and a.name.split('.')[-1] == b.name.split('.')[-1]
        if isinstance(a, (list, tuple)) and isinstance(b, (list, tuple)):
            return type(a) is type(b) and len(a) == len(b) and all(self._eq(x, y) for x, y in zip(a, b))
        try:
            return a == b
        except Exception:
            return False

    # ------------------------------------------------------------------ calls
    def call(self, e, env):
        f = self.expr(e.func, env)
        args = []
        for a in e.args:
            if isinstance(a, ast.Starred):
                args.extend(self.iterate(self.expr(a.value, env)))
            else:
                args.append(self.expr(a, env))
        kwargs = {}
        for k in e.keywords:
            if k.arg is None:
                m = self.expr(k.value, env)
                if isinstance(m, Obj) and 'mapping' in m.hooks:
                    m = m.hooks['mapping'](self, m)
                if isinstance(m, Sym):
                    kwargs['**' + render(m)] = m
                    continue
                if not isinstance(m, dict):
                    raise Raised('TypeError')
                for kk, vv in m.items():
                    if not isinstance(kk, str):
                        raise Raised('TypeError')
                    kwargs[kk] = vv
            else:
                kwargs[k.arg] = self.expr(k.value, env)
        return self.apply(f, args, kwargs)

    def apply(self, f, args, kwargs):
        self.tick()
        if isinstance(f, Fn):
            return self.call_fn(f, args, kwargs)
        if isinstance(f, Bound):
            return self.call_fn(f.fn, [f.recv] + list(args), kwargs)
        if isinstance(f, tuple) and f and f[0] == 'method':
            return f[1].methods[f[2]](self, f[1], args, kwargs)
        if isinstance(f, tuple) and f and f[0] == 'pymethod':
            return self.pymethod(f[1], f[2], args, kwargs)
        if isinstance(f, tuple) and f and f[0] == 'builtin':
            return self.builtin(f[1], args, kwargs)
        if isinstance(f, TypeV):
            if f.ctor is not None:
                return f.ctor(self, args, kwargs)
            return self.construct(f, args, kwargs)
        if isinstance(f, Obj):
            h = f.hooks.get('call')
            if h is None:
                raise Raised('TypeError')
            return h(self, f, args, kwargs)
        if isinstance(f, Sym):
            r = self.stdlib(render(f), args, kwargs)
            if r is not NotImplemented:
                return r
            return Sym('call', f, tuple(args), dict(kwargs))
        if callable(f):
            return f(self, args, kwargs)          # external stub supplied by a scenario
        raise Raised('TypeError')

    def stdlib(self, name, args, kwargs):
        """the pure helpers of functools / itertools / operator / collections that argument handling is written with"""
        it = self.iterate
        if name in ('functools.reduce', 'reduce'):
            xs = it(args[1])
            if len(args) > 2:
                acc = args[2]
            elif xs:
                acc, xs = xs[0], xs[1:]
            else:
                raise Raised('TypeError')
            for x in xs:
                acc = self.apply(args[0], [acc, x], {})
            return acc
        if name in ('functools.partial', 'partial'):
            f0, a0, k0 = args[0], list(args[1:]), dict(kwargs)
            return lambda itp, a, k: itp.apply(f0, a0 + list(a), dict(k0, **k))
        if name in ('functools.wraps',):
            return lambda itp, a, k: a[0]
        if name == 'itertools.product':
            return [tuple(x) for x in itertools.product(*[it(a) for a in args])]
        if name == 'itertools.chain':
            return [x for a in args for x in it(a)]
        if name == 'itertools.chain.from_iterable':
            return [x for a in it(args[0]) for x in it(a)]
        if name == 'itertools.count':
            start = args[0] if args else kwargs.get('start', 0)
            step = args[1] if len(args) > 1 else kwargs.get('step', 1)
            return [start + k * step for k in range(64)]            # (an endless counter, read as far as any search in this code base goes)
        if name == 'itertools.repeat':
            return [args[0]] * (args[1] if len(args) > 1 else 64)
        if name == 'itertools.islice':
            xs = it(args[0])
            return xs[slice(*args[1:])]
        if name in ('itertools.takewhile', 'itertools.dropwhile'):
            xs = it(args[1])
            k = 0
            while k < len(xs) and self.truth(self.apply(args[0], [xs[k]], {})):
                k += 1
            return xs[:k] if name.endswith('takewhile') else xs[k:]
        if name == 'itertools.zip_longest':
            return [tuple(x) for x in itertools.zip_longest(*[it(a) for a in args], **kwargs)]
        if name == 'itertools.permutations':
            return [tuple(x) for x in itertools.permutations(it(args[0]), *args[1:])]
        if name == 'itertools.combinations':
            return [tuple(x) for x in itertools.combinations(it(args[0]), args[1])]
        if name == 'itertools.accumulate':
            out, acc = [], None
            for k, x in enumerate(it(args[0])):
                acc = x if k == 0 else (self.apply(args[1], [acc, x], {}) if len(args) > 1 else self.binop(ast.Add(), acc, x))
                out.append(acc)
            return out
        if name.startswith('operator.'):
            op = name.split('.', 1)[1]
            table = {'add': ast.Add, 'sub': ast.Sub, 'mul': ast.Mult, 'truediv': ast.Div, 'floordiv': ast.FloorDiv, 'mod': ast.Mod, 'or_': ast.BitOr, 'and_': ast.BitAnd,
                     'xor': ast.BitXor, 'pow': ast.Pow}
            cmps = {'eq': ast.Eq, 'ne': ast.NotEq, 'lt': ast.Lt, 'le': ast.LtE, 'gt': ast.Gt, 'ge': ast.GtE, 'is_': ast.Is, 'is_not': ast.IsNot}
            if op in table and len(args) == 2:
                return self.binop(table[op](), args[0], args[1])
            if op in cmps and len(args) == 2:
                return self.compare(cmps[op](), args[0], args[1])
            if op == 'contains' and len(args) == 2:
                return self.compare(ast.In(), args[1], args[0])
            if op == 'not_' and len(args) == 1:
                return not self.truth(args[0])
            if op == 'getitem' and len(args) == 2:
                return self.getitem(args[0], args[1])
            if op == 'itemgetter':
                keys = list(args)
                return (lambda itp, a, k: itp.getitem(a[0], keys[0])) if len(keys) == 1 else (lambda itp, a, k: tuple(itp.getitem(a[0], kk) for kk in keys))
            if op == 'attrgetter':
                names = list(args)
                def get(itp, o, path):
                    for part in path.split('.'):
                        o = itp.getattr_(o, part)
                    return o
                return (lambda itp, a, k: get(itp, a[0], names[0])) if len(names) == 1 else (lambda itp, a, k: tuple(get(itp, a[0], nn) for nn in names))
            if op == 'methodcaller':
                mname, margs, mkw = args[0], list(args[1:]), dict(kwargs)
                return lambda itp, a, k: itp.apply(itp.getattr_(a[0], mname), margs, mkw)
        if name in ('collections.OrderedDict', 'OrderedDict'):
            return self.construct(TypeV('dict'), args, kwargs)
        if name in ('copy.copy', 'copy.deepcopy'):
            x = args[0]
            if isinstance(x, Obj) and 'copy' in x.methods:
                return x.methods['copy'](self, x, [], {})
            if isinstance(x, (list, dict, set)) and not has_abstract(x):
                import copy as _copy
                return _copy.deepcopy(x) if name.endswith('deepcopy') else _copy.copy(x)
            if isinstance(x, list):
                return list(x)
            if isinstance(x, dict):
                return dict(x)
            if isinstance(x, (int, float, str, bool, tuple)) or x is None:
                return x
        if name in ('warnings.warn',):
            return None
        return NotImplemented

    def call_fn(self, f, args, kwargs):
        self.depth += 1
        if self.depth > self.max_depth:
            self.depth -= 1
            raise Raised('RecursionError')
        try:
            node = f.node
            a = node.args
            env = {'__enclosing__': f.env if f.glob is None else None, '__glob__': f.glob}
            pos = [x.arg for x in a.posonlyargs + a.args]
            kwargs = dict(kwargs)
            if len(args) > len(pos) and not a.vararg:
                raise Raised('TypeError')
            for n_, v in zip(pos, args):
                env[n_] = v
            if a.vararg:
                env[a.vararg.arg] = tuple(args[len(pos):])
            defaults = dict(zip(pos[len(pos) - len(a.defaults):], a.defaults))
            denv = f.env if f.env is not None else {}
            for n_ in pos[len(args):]:
                if n_ in kwargs:
                    env[n_] = kwargs.pop(n_)
                elif n_ in defaults:
                    env[n_] = self.expr(defaults[n_], _child(denv, f.glob))
                else:
                    raise Raised('TypeError')
            for n_ in pos[:len(args)]:
                if n_ in kwargs:
                    raise Raised('TypeError')
            for kw, d in zip(a.kwonlyargs, a.kw_defaults):
                if kw.arg in kwargs:
                    env[kw.arg] = kwargs.pop(kw.arg)
                elif d is not None:
                    env[kw.arg] = self.expr(d, _child(denv, f.glob))
                else:
                    raise Raised('TypeError')
            if a.kwarg:
                env[a.kwarg.arg] = kwargs
            elif kwargs:
                raise Raised('TypeError')
            is_gen = any(isinstance(n, (ast.Yield, ast.YieldFrom)) for n in _own_nodes(node))
            if is_gen:
                env['__yielded__'] = []
            try:
                self.block(node.body, env)
            except _Return as r:
                if is_gen:
                    return It(env['__yielded__'], name='generator')
                return r.value
            return It(env['__yielded__'], name='generator') if is_gen else None
        finally:
            self.depth -= 1

    def construct(self, t, args, kwargs):
        n = t.name
        try:
            if n == 'list':
                return list(self.iterate(args[0])) if args else []
            if n == 'tuple':
                return tuple(self.iterate(args[0])) if args else ()
            if n in ('set', 'frozenset'):
                vals = self.iterate(args[0]) if args else []
                try:
                    return set(vals) if n == 'set' else frozenset(vals)
                except TypeError:
                    raise Raised('TypeError')
            if n == 'dict':
                d = {}
                if args:
                    src = args[0]
                    if isinstance(src, dict):
                        d.update(src)
                    else:
                        for kv in self.iterate(src):
                            k, v = self.iterate(kv)
                            d[k] = v
                d.update(kwargs)
                return d
            if n == 'str':
                return render(args[0]) if args and has_abstract(args[0]) else str(*args)
            if n in ('int', 'float', 'bool'):
                if args and isinstance(args[0], (Sym, Obj)):
                    return Sym('call', n, tuple(args), {})
                return {'int': int, 'float': float, 'bool': bool}[n](*args)
            if n == 'slice':
                return slice(*args)
            if n == 'range':
                return range(*args)
            if n == 'object':
                return Obj('object')
            if n == 'type' and len(args) == 1:
                return self.typeof(args[0])
        except (Raised, Undecided):
            raise
        except Exception as e:
            self.pyerr(e)
        if n in EXC_PARENTS or n.endswith('Error') or n.endswith('Warning') or n == 'Exception':
            return Sym('exc', n)
        return Sym('call', n, tuple(args), dict(kwargs))

    def pymethod(self, o, attr, args, kwargs):
        if isinstance(o, str) and attr == 'format':
            try:
                return o.format(*[render(a) if has_abstract(a) else a for a in args], **dict((k, render(v) if has_abstract(v) else v) for k, v in kwargs.items()))
            except Exception:
                return o
        if isinstance(o, str) and attr == 'join':
            vals = self.iterate(args[0])
            if any(not isinstance(x, str) for x in vals):
                if any(isinstance(x, (Sym, Obj)) for x in vals):
                    raise Undecided('join of symbolic names')
                raise Raised('TypeError')
            return o.join(vals)
        if isinstance(o, dict) and attr in ('keys', 'values', 'items'):
            return It(list(getattr(o, attr)()), kind='view', name='dict_' + attr) if not kwargs and not args else self.pyerr(TypeError())
        if isinstance(o, list) and attr == 'sort':
            key = kwargs.get('key')
            try:
                if key is not None:
                    o.sort(key=lambda x: self.apply(key, [x], {}), reverse=bool(kwargs.get('reverse', False)))
                else:
                    if any(isinstance(x, (Obj, Sym)) for x in o):
                        raise Raised('TypeError')
                    o.sort(reverse=bool(kwargs.get('reverse', False)))
            except (Raised, Undecided):
                raise
            except Exception as e:
                self.pyerr(e)
            return None
        if isinstance(o, (list, tuple)) and attr in ('index', 'count', 'remove'):
            x = args[0]
            if attr == 'index':
                for k, y in enumerate(o):
                    if self._eq(x, y):
                        return k
                raise Raised('ValueError')
            if attr == 'count':
                return sum(1 for y in o if self._eq(x, y))
            for k, y in enumerate(o):
                if self._eq(x, y):
                    del o[k]
                    return None
            raise Raised('ValueError')
        if isinstance(o, dict) and attr in ('get', 'pop', 'setdefault', 'update', '__getitem__', '__contains__', 'copy', 'clear', 'popitem'):
            try:
                if attr == 'update':
                    for a in args:
                        o.update(a if isinstance(a, dict) else dict(self.iterate(a)))
                    o.update(kwargs)
                    return None
                return getattr(o, attr)(*args)
            except Exception as e:
                self.pyerr(e)
        if any(isinstance(a, (Sym,)) for a in args):
            if isinstance(o, list) and attr in ('append', 'insert', 'extend'):
                pass
            elif isinstance(o, str):
                raise Undecided('str.%s with a symbolic argument' % attr)
        try:
            if isinstance(o, list) and attr == 'extend':
                o.extend(self.iterate(args[0]))
                return None
            return getattr(o, attr)(*args, **kwargs)
        except Exception as e:
            self.pyerr(e)

    def builtin(self, n, args, kwargs):
        try:
            if n == 'len':
                return self.length(args[0])
            if n == 'isinstance':
                return self.isinstance_(args[0], args[1])
            if n == 'issubclass':
                raise Undecided('issubclass')
            if n == 'type':
                return self.typeof(args[0])
            if n == 'hasattr':
                return self.getattr_(args[0], args[1], default=None) is not None or (isinstance(args[0], Obj) and args[1] in args[0].attrs)
            if n == 'getattr':
                return self.getattr_(args[0], args[1], *(args[2:3] if len(args) > 2 else [KeyError]))
            if n == 'setattr':
                if isinstance(args[0], Obj):
                    args[0].attrs[args[1]] = args[2]
                    return None
                raise Undecided('setattr on %s' % render(args[0])[:60])
            if n == 'callable':
                return isinstance(args[0], (Fn, Bound, TypeV)) or (isinstance(args[0], tuple) and args[0][:1] in (('builtin',), ('method',), ('pymethod',))) or \
                    (isinstance(args[0], Obj) and 'call' in args[0].hooks) or (callable(args[0]) and not isinstance(args[0], (Obj, Sym)))
            if n == 'range':
                return range(*args)
            if n == 'enumerate':
                return It(enumerate(self.iterate(args[0]), *(args[1:2]), **kwargs), name='enumerate')
            if n == 'zip':
                return It(zip(*[self.iterate(a) for a in args]), name='zip')
            if n == 'reversed':
                if isinstance(args[0], (It, set, frozenset, dict)) and not (isinstance(args[0], dict)):
                    raise Raised('TypeError')
                return It(reversed(self.iterate(args[0])), name='reversed')
            if n == 'sorted':
                vals = self.iterate(args[0])
                key = kwargs.get('key')
                if key is not None:
                    return sorted(vals, key=lambda x: self.apply(key, [x], {}), reverse=bool(kwargs.get('reverse', False)))
                if any(isinstance(x, (Obj, Sym)) for x in vals):
                    raise Raised('TypeError')
                return sorted(vals, reverse=bool(kwargs.get('reverse', False)))
            if n in ('any', 'all'):
                vals = [self.truth(x) for x in self.iterate(args[0])]
                return any(vals) if n == 'any' else all(vals)
            if n in ('min', 'max', 'sum', 'abs', 'round', 'divmod'):
                vals = args if len(args) > 1 or n in ('abs', 'round', 'divmod') else [self.iterate(args[0])] + list(args[1:])
                if has_abstract(vals):
                    return Sym('call', n, tuple(args), dict(kwargs))
                return {'min': min, 'max': max, 'sum': sum, 'abs': abs, 'round': round, 'divmod': divmod}[n](*vals, **kwargs)
            if n == 'map':
                its = [self.iterate(a) for a in args[1:]]
                return It([self.apply(args[0], list(xs), {}) for xs in zip(*its)], name='map')
            if n == 'filter':
                return It([x for x in self.iterate(args[1]) if (self.truth(x) if args[0] is None else self.truth(self.apply(args[0], [x], {})))], name='filter')
            if n == 'iter':
                return ('iterator', self.iterate(args[0]), [0])
            if n == 'next':
                it = args[0]
                if isinstance(it, tuple) and it and it[0] == 'iterator':
                    if it[2][0] < len(it[1]):
                        it[2][0] += 1
                        return it[1][it[2][0] - 1]
                    if len(args) > 1:
                        return args[1]
                    raise Raised('StopIteration')
                if isinstance(it, It):
                    if it.items and not it.used:
                        return it.items.pop(0)
                    if len(args) > 1:
                        return args[1]
                    raise Raised('StopIteration')
                if isinstance(it, list):            # (a list is not an iterator)
                    raise Raised('TypeError')
                if False:
                    if it:
                        return it.pop(0)
                    if len(args) > 1:
                        return args[1]
                    raise Raised('StopIteration')
                raise Undecided('next of %s' % render(it)[:60])
            if n == 'repr':
                return render(args[0])
            if n == 'id':
                return id(args[0])
            if n == 'print':
                return None
            if n == 'super':
                # super(Class, obj) of a list- / dict-backed abstract object: the plain container methods
                if len(args) == 2 and isinstance(args[1], Obj) and ('_list' in args[1].attrs or '_dict' in args[1].attrs):
                    box = args[1].attrs.get('_list') if '_list' in args[1].attrs else args[1].attrs['_dict']
                    proxy = Obj('super(%s)' % args[1].name)
                    proxy.hooks['getattr'] = lambda itp, o, attr, box=box: ('pymethod', box, attr) if hasattr(box, attr) else KeyError
                    return proxy
                raise Undecided('super()')
            if n == 'vars' or n == 'locals' or n == 'globals':
                raise Undecided(n)
            if n == 'hash':
                return hash(args[0])
            if n == 'ord' or n == 'chr':
                return {'ord': ord, 'chr': chr}[n](*args)
        except (Raised, Undecided):
            raise
        except Exception as e:
            self.pyerr(e)
        raise Undecided('builtin %s' % n)


BUILTINS = ('len', 'isinstance', 'issubclass', 'hasattr', 'getattr', 'setattr', 'callable', 'enumerate', 'zip', 'reversed', 'sorted', 'any', 'all', 'min', 'max',
            'sum', 'abs', 'round', 'divmod', 'map', 'filter', 'iter', 'next', 'repr', 'id', 'print', 'super', 'vars', 'locals', 'globals', 'hash', 'ord', 'chr')


def _child(env, glob=None):
    return {'__enclosing__': env, '__glob__': glob if glob is not None else (env.get('__glob__') if env else None)}


def _own_nodes(fn):
    """nodes of a function body, not descending into nested functions / lambdas"""
    stack = list(fn.body)
    while stack:
        n = stack.pop()
        yield n
        for c in ast.iter_child_nodes(n):
            if not isinstance(c, (ast.FunctionDef, ast.Lambda, ast.ClassDef)):
                stack.append(c)


# yield support: a generator function is evaluated eagerly into the list of what it yields (its consumers iterate over finite sequences)
_orig_expr = SInterp.expr


def _expr_with_yield(self, e, env):
    if isinstance(e, ast.Yield):
        scope = env
        while scope is not None and '__yielded__' not in scope:
            scope = scope.get('__enclosing__')
        if scope is None:
            raise Undecided('yield outside a generator')
        scope['__yielded__'].append(self.expr(e.value, env) if e.value is not None else None)
        return None
    if isinstance(e, ast.YieldFrom):
        scope = env
        while scope is not None and '__yielded__' not in scope:
            scope = scope.get('__enclosing__')
        if scope is None:
            raise Undecided('yield outside a generator')
        scope['__yielded__'].extend(self.iterate(self.expr(e.value, env)))
        return None
    return _orig_expr(self, e, env)


SInterp.expr = _expr_with_yield


# ---------------------------------------------------------------------------------------------------------------- program binding
def module_glob(P, mod, overrides=None, np_funcs=None):
    """resolver of global names for functions of module `mod`: scenario overrides first, then the module's own functions and constants, names imported from other
    modules of the package (interpreted in their own module), classes as type tokens, anything else imported as a symbolic token"""
    overrides = overrides or {}
    cache = {}

    def glob(name):
        if name in overrides:
            return overrides[name]
        if name in cache:
            return cache[name]
        v = None
        f = mod.functions.get(name)
        if f is not None and f.cls is None:
            v = Fn(f.node, None, module_glob(P, mod, overrides), name)
        elif name in getattr(mod, 'classes', {}) or any(c.name == name and c.module is mod for c in P.classes.values()):
            v = TypeV(name)
        elif name in mod.assigns and mod.assigns[name]:
            expr = mod.assigns[name][-1]
            itp = SInterp(glob)
            v = itp.expr(expr, {'__glob__': glob})
        else:
            r = None
            try:
                r = P.resolve_name(mod, name)
            except Exception:
                r = None
            if r is not None and r[0] == 'func':
                fi = r[1]
                v = Fn(fi.node, None, module_glob(P, fi.module, overrides), fi.name)
            elif r is not None and r[0] == 'class':
                v = TypeV(name)
            elif name in ('np', 'numpy', 'warnings', 'copy', 'itertools', 'functools', 'operator', 'collections', 'da', 'sys', 'os', 're', 'math', 'json'):
                v = Sym('tok', 'np' if name == 'numpy' else name)
            else:
                raise KeyError(name)
        cache[name] = v
        return v
    return glob


class Outcome(object):
    def __init__(self, kind, text):
        self.kind, self.text = kind, text          # 'value' | 'raise' | 'undecided'

    def __repr__(self):
        return '%s:%s' % (self.kind, self.text)


def run_scenario(P, fi, args, kwargs=None, overrides=None, oracle=None, post=None, steps=60000):
    """interpret function `fi` on abstract arguments -> Outcome.  `post(interp, result)` may render more than the returned value (e.g. the state of an abstract
    object the function mutates)"""
    glob = module_glob(P, fi.module, overrides)
    itp = SInterp(glob, oracle=oracle, steps=steps)
    f = Fn(fi.node, None, glob, fi.name)
    try:
        r = itp.call_fn(f, list(args), dict(kwargs or {}))
        return Outcome('value', post(itp, r) if post else render(r))
    except Raised as e:
        return Outcome('raise', e.name)
    except Undecided as e:
        return Outcome('undecided', str(e))
    except RecursionError:
        return Outcome('undecided', 'interpreter recursion')
