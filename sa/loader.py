"""Loader and program model.

Parses every ``*.py`` below ``<repo>/dimarray`` with :mod:`ast` and builds

* module symbol tables (imports, defs, classes, module-level aliases),
* class tables with a statically computed C3 MRO,
* member resolution that understands the dynamic-dispatch idioms of this
  repository (class-body aliases ``transpose = _reshape.transpose``,
  ``_NumpyDesc("sum")`` descriptors, properties that return bound methods,
  ``deprecated_func`` / ``format_doc`` wrappers, ``__getitem__ = _getitem``).

Nothing from the analysed repository is imported or executed.
"""
import ast
import hashlib
import os
import warnings


class AnalysisError(Exception):
    """The analysis cannot decide (unknown idiom, vanished anchor...) -> exit 2."""


class FunctionInfo(object):
    def __init__(self, module, node, qualname, cls=None, parent=None):
        self.module = module          # ModuleInfo
        self.node = node              # ast.FunctionDef | ast.Lambda
        self.qualname = qualname      # dotted, e.g. dimarray.core.align.align
        self.cls = cls                # ClassInfo or None
        self.parent = parent          # enclosing FunctionInfo or None
        self.decorators = [] if isinstance(node, ast.Lambda) else node.decorator_list

    @property
    def name(self):
        return self.qualname.rsplit('.', 1)[-1]

    @property
    def params(self):
        a = self.node.args
        return [x.arg for x in a.posonlyargs + a.args]

    @property
    def kwonly(self):
        return [x.arg for x in self.node.args.kwonlyargs]

    @property
    def vararg(self):
        return self.node.args.vararg.arg if self.node.args.vararg else None

    @property
    def kwarg(self):
        return self.node.args.kwarg.arg if self.node.args.kwarg else None

    def defaults(self):
        """param name -> default expression node."""
        a = self.node.args
        pos = a.posonlyargs + a.args
        out = {}
        for p, d in zip(pos[len(pos) - len(a.defaults):], a.defaults):
            out[p.arg] = d
        for p, d in zip(a.kwonlyargs, a.kw_defaults):
            if d is not None:
                out[p.arg] = d
        return out

    @property
    def file(self):
        return self.module.relpath

    @property
    def lineno(self):
        return self.node.lineno

    def where(self):
        return "%s:%d" % (self.file, self.lineno)

    def __repr__(self):
        return "<fn %s>" % self.qualname


class ClassInfo(object):
    def __init__(self, module, node, qualname):
        self.module = module
        self.node = node
        self.qualname = qualname
        self.base_exprs = node.bases
        self.bases = []        # resolved: ClassInfo or str (external/builtin name)
        self.members = {}      # name -> Member
        self.mro = None

    @property
    def name(self):
        return self.qualname.rsplit('.', 1)[-1]

    def __repr__(self):
        return "<class %s>" % self.qualname


class Member(object):
    """A class-body binding.

    kind: 'func'   value = FunctionInfo
          'prop'   value = dict(fget=FunctionInfo, fset=..., fdel=...)
          'alias'  value = ast expr (resolved lazily by Program.resolve_member)
          'const'  value = ast expr
    """
    def __init__(self, kind, value, node, cls):
        self.kind = kind
        self.value = value
        self.node = node
        self.cls = cls
        self.decorators = []


class ModuleInfo(object):
    def __init__(self, name, path, relpath, source):
        self.name = name
        self.path = path
        self.relpath = relpath
        self.source = source
        self.sha256 = hashlib.sha256(source.encode('utf-8')).hexdigest()
        with warnings.catch_warnings():
            warnings.simplefilter('ignore')
            self.tree = ast.parse(source, filename=path)
        self.imports = {}     # local name -> ('module', dotted) | ('from', module, name)
        self.star_imports = []  # module names
        self.functions = {}   # top-level name -> FunctionInfo
        self.classes = {}     # top-level name -> ClassInfo
        self.assigns = {}     # top-level name -> list of value exprs (in order)
        self.all = None       # __all__ list or None
        self.is_package = os.path.basename(path) == '__init__.py'

    @property
    def package(self):
        return self.name if self.is_package else self.name.rsplit('.', 1)[0]


class Program(object):
    def __init__(self, repo, pkg='dimarray'):
        self.repo = os.path.abspath(repo)
        self.pkg = pkg
        self.modules = {}     # dotted -> ModuleInfo
        self.functions = {}   # qualname -> FunctionInfo  (all, incl. nested & methods)
        self.classes = {}     # qualname -> ClassInfo
        self._load()
        self._index()
        self._link_classes()

    # ------------------------------------------------------------------ load
    def _load(self):
        root = os.path.join(self.repo, self.pkg)
        if not os.path.isdir(root):
            raise AnalysisError("package directory not found: %s" % root)
        for dirpath, dirnames, filenames in os.walk(root):
            dirnames[:] = sorted(d for d in dirnames if d != '__pycache__')
            for fn in sorted(filenames):
                if not fn.endswith('.py'):
                    continue
                path = os.path.join(dirpath, fn)
                rel = os.path.relpath(path, self.repo)
                parts = rel[:-3].split(os.sep)
                if parts[-1] == '__init__':
                    parts = parts[:-1]
                name = '.'.join(parts)
                with open(path, encoding='utf-8') as f:
                    src = f.read()
                try:
                    self.modules[name] = ModuleInfo(name, path, rel, src)
                except SyntaxError as e:
                    raise AnalysisError("cannot parse %s: %s" % (rel, e))

    def _abs_module(self, mod, level, modname):
        if level == 0:
            return modname
        base = mod.package.split('.')
        if level > 1:
            base = base[:-(level - 1)]
        return '.'.join(base + ([modname] if modname else []))

    def _index(self):
        for mod in self.modules.values():
            self._index_body(mod, mod.tree.body, top=True)

    def _index_body(self, mod, body, top):
        for st in body:
            if isinstance(st, ast.Import):
                for a in st.names:
                    if a.asname:
                        mod.imports[a.asname] = ('module', a.name)
                    else:
                        mod.imports[a.name.split('.')[0]] = ('module', a.name.split('.')[0])
            elif isinstance(st, ast.ImportFrom):
                src = self._abs_module(mod, st.level, st.module)
                for a in st.names:
                    if a.name == '*':
                        mod.star_imports.append(src)
                    elif st.level and not st.module and (src + '.' + a.name) in self.modules:
                        # `from . import submodule [as x]`: the submodule, even if the
                        # package later rebinds the same name to a function
                        mod.imports[a.asname or a.name] = ('module', src + '.' + a.name)
                    else:
                        mod.imports[a.asname or a.name] = ('from', src, a.name)
            elif isinstance(st, ast.FunctionDef):
                fi = self._add_function(mod, st, mod.name + '.' + st.name, None, None)
                mod.functions[st.name] = fi
                mod.assigns.pop(st.name, None)
            elif isinstance(st, ast.ClassDef):
                ci = ClassInfo(mod, st, mod.name + '.' + st.name)
                mod.classes[st.name] = ci
                self.classes[ci.qualname] = ci
                self._index_class(mod, ci)
            elif isinstance(st, ast.Assign):
                for t in st.targets:
                    if isinstance(t, ast.Name):
                        mod.assigns.setdefault(t.id, []).append(st.value)
                        if t.id == '__all__':
                            try:
                                mod.all = list(ast.literal_eval(st.value))
                            except Exception:
                                mod.all = None
            elif isinstance(st, (ast.Try,)):
                self._index_body(mod, st.body, top)
                for h in st.handlers:
                    self._index_body(mod, h.body, top)
                self._index_body(mod, st.orelse, top)
            elif isinstance(st, ast.If):
                # `if PY3: ... else: ...` (compat module): only the Python 3 branch exists for the pinned interpreter
                if isinstance(st.test, ast.Name) and st.test.id == 'PY3':
                    self._index_body(mod, st.body, top)
                else:
                    self._index_body(mod, st.body, top)
                    self._index_body(mod, st.orelse, top)

    def _add_function(self, mod, node, qualname, cls, parent):
        fi = FunctionInfo(mod, node, qualname, cls, parent)
        self.functions[qualname] = fi
        # nested defs
        for sub in ast.walk(node):
            if sub is node:
                continue
            if isinstance(sub, ast.FunctionDef) and self._direct_parent_fn(node, sub):
                self._add_function(mod, sub, qualname + '.<locals>.' + sub.name, cls, fi)
        return fi

    @staticmethod
    def _direct_parent_fn(outer, inner):
        # inner is nested somewhere in outer; accept only if no other FunctionDef in between
        stack = [(outer, False)]
        while stack:
            n, _ = stack.pop()
            for ch in ast.iter_child_nodes(n):
                if ch is inner:
                    return True
                if isinstance(ch, (ast.FunctionDef, ast.Lambda, ast.ClassDef)):
                    continue
                stack.append((ch, False))
        return False

    def _index_class(self, mod, ci):
        for st in ci.node.body:
            if isinstance(st, ast.FunctionDef):
                deco = [self._deco_name(d) for d in st.decorator_list]
                is_prop = st.name in ci.members and ci.members[st.name].kind == 'prop'
                if any(d.endswith('.setter') for d in deco) and is_prop:
                    fi = self._add_function(mod, st, ci.qualname + '.' + st.name + '.setter', ci, None)
                    ci.members[st.name].value['fset'] = fi
                elif any(d.endswith('.deleter') for d in deco) and is_prop:
                    fi = self._add_function(mod, st, ci.qualname + '.' + st.name + '.deleter', ci, None)
                    ci.members[st.name].value['fdel'] = fi
                elif 'property' in deco:
                    fi = self._add_function(mod, st, ci.qualname + '.' + st.name, ci, None)
                    m = Member('prop', {'fget': fi, 'fset': None, 'fdel': None}, st, ci)
                    ci.members[st.name] = m
                else:
                    fi = self._add_function(mod, st, ci.qualname + '.' + st.name, ci, None)
                    m = Member('func', fi, st, ci)
                    m.decorators = deco
                    ci.members[st.name] = m
            elif isinstance(st, ast.Assign):
                for t in st.targets:
                    if isinstance(t, ast.Name):
                        v = st.value
                        if isinstance(v, (ast.Name, ast.Attribute, ast.Call)):
                            ci.members[t.id] = Member('alias', v, st, ci)
                        else:
                            ci.members[t.id] = Member('const', v, st, ci)

    @staticmethod
    def _deco_name(d):
        try:
            return ast.unparse(d)
        except Exception:
            return ''

    def _link_classes(self):
        for ci in self.classes.values():
            ci.bases = []
            for b in ci.base_exprs:
                r = self.resolve_expr(ci.module, b)
                if r and r[0] == 'class':
                    ci.bases.append(r[1])
                else:
                    ci.bases.append(ast.unparse(b))
        for ci in self.classes.values():
            self._mro(ci)

    def _mro(self, ci):
        if ci.mro is not None:
            return ci.mro
        seqs = []
        for b in ci.bases:
            if isinstance(b, ClassInfo):
                seqs.append(list(self._mro(b)))
            else:
                seqs.append([b])
        seqs.append(list(ci.bases))
        res = [ci]
        seqs = [s for s in seqs if s]
        while seqs:
            for s in seqs:
                cand = s[0]
                if not any(cand in t[1:] for t in seqs):
                    break
            else:
                raise AnalysisError("inconsistent MRO for %s" % ci.qualname)
            res.append(cand)
            seqs = [[x for x in s if x is not cand] for s in seqs]
            seqs = [s for s in seqs if s]
        ci.mro = res
        return res

    # --------------------------------------------------------------- resolve
    def resolve_name(self, mod, name, _seen=None):
        """Resolve a global name in module `mod`.

        Returns ('func', FunctionInfo) | ('class', ClassInfo) | ('module', ModuleInfo)
                | ('extmodule', dotted) | ('ext', dotted) | ('assign', mod, name, [exprs]) | None
        """
        _seen = _seen or set()
        key = (mod.name, name)
        if key in _seen:
            return None
        _seen.add(key)
        if name in mod.assigns and name not in mod.functions and name not in mod.classes:
            return ('assign', mod, name, mod.assigns[name])
        if name in mod.functions:
            # a later module-level assignment may rebind; keep def unless assigned after
            return ('func', mod.functions[name])
        if name in mod.classes:
            return ('class', mod.classes[name])
        if name in mod.imports:
            imp = mod.imports[name]
            if imp[0] == 'module':
                m = self.modules.get(imp[1])
                return ('module', m) if m else ('extmodule', imp[1])
            _, src, orig = imp
            sub = self.modules.get(src + '.' + orig)
            m = self.modules.get(src)
            if m is not None:
                r = self.resolve_name(m, orig, _seen)
                if r is not None:
                    return r
                if sub is not None:
                    return ('module', sub)
                return None
            if sub is not None:
                return ('module', sub)
            return ('ext', src + '.' + orig)
        for src in mod.star_imports:
            m = self.modules.get(src)
            if m is None:
                continue
            if m.all is not None and name not in m.all:
                # star import honours __all__
                continue
            if m.all is None and name.startswith('_'):
                continue
            r = self.resolve_name(m, name, _seen)
            if r is not None:
                return r
        return None

    def resolve_expr(self, mod, expr):
        """Resolve Name / dotted Attribute at module scope; unwrap known wrappers."""
        if isinstance(expr, ast.Name):
            r = self.resolve_name(mod, expr.id)
            return self._unwrap_assign(r)
        if isinstance(expr, ast.Attribute):
            base = self.resolve_expr(mod, expr.value)
            if base is None:
                return None
            if base[0] == 'module':
                return self._unwrap_assign(self.resolve_name(base[1], expr.attr))
            if base[0] == 'extmodule':
                return ('ext', base[1] + '.' + expr.attr)
            if base[0] == 'ext':
                return ('ext', base[1] + '.' + expr.attr)
            if base[0] == 'class':
                m = self.lookup(base[1], expr.attr)
                if m is not None:
                    return self.resolve_member(m)
            return None
        if isinstance(expr, ast.Call):
            # wrappers that are the identity on behaviour
            fname = ast.unparse(expr.func)
            if fname.split('.')[-1] in ('deprecated_func',) and expr.args:
                r = self.resolve_expr(mod, expr.args[0])
                if r and r[0] == 'func':
                    return ('func', r[1], 'wrapped:deprecated_func')
                return r
            if fname.split('.')[-1] == '_NumpyDesc' and expr.args and isinstance(expr.args[0], ast.Constant):
                return ('numpydesc', expr.args[0].value)
            if fname.split('.')[-1] == 'Desc':
                return ('desc', expr)
            return ('callexpr', mod, expr)
        return None

    def _unwrap_assign(self, r):
        if r is None:
            return None
        if r[0] == 'assign':
            _, mod, name, exprs = r
            # use the last assignment
            v = exprs[-1]
            if isinstance(v, ast.Name) and v.id == name:
                return ('ext', name)         # `range = range` (compat aliases of builtins)
            if isinstance(v, (ast.Name, ast.Attribute, ast.Call)):
                rr = self.resolve_expr(mod, v)
                if rr is not None and rr[0] != 'callexpr':
                    return rr
            return ('value', mod, name, v)
        return r

    def lookup(self, ci, name):
        """Member lookup through the MRO. Returns Member or None."""
        for c in ci.mro:
            if isinstance(c, ClassInfo) and name in c.members:
                return c.members[name]
        return None

    def resolve_member(self, member):
        """Resolve a Member to ('func', fi) / ('prop', dict) / ('numpydesc', name) / ('const', node) ..."""
        if member.kind == 'func':
            return ('func', member.value)
        if member.kind == 'prop':
            return ('prop', member.value)
        if member.kind == 'const':
            return ('const', member.value)
        if member.kind == 'alias':
            v = member.value
            # alias to an earlier binding of the same class body?
            if isinstance(v, ast.Name) and v.id in member.cls.members and member.cls.members[v.id] is not member:
                return self.resolve_member(member.cls.members[v.id])
            r = self.resolve_expr(member.cls.module, v)
            if r is None:
                return ('unresolved', v)
            return r
        return None

    def method(self, cls_qual, name):
        """Resolve `name` on class `cls_qual` to a FunctionInfo (following aliases,
        and properties that return a bound method of self). Raises AnalysisError."""
        ci = self.classes.get(cls_qual)
        if ci is None:
            raise AnalysisError("class vanished: %s" % cls_qual)
        m = self.lookup(ci, name)
        if m is None:
            raise AnalysisError("member vanished: %s.%s" % (cls_qual, name))
        r = self.resolve_member(m)
        if r[0] == 'func':
            return r[1]
        if r[0] == 'prop':
            fget = r[1]['fget']
            # property returning a bound method `return self._getitem`
            rets = [n for n in ast.walk(fget.node) if isinstance(n, ast.Return)]
            if len(rets) == 1:
                val = rets[0].value
                if isinstance(val, ast.Name):
                    # ... through a local bound exactly once: `m = self._getitem; return m`
                    binds = [n for n in ast.walk(fget.node) if isinstance(n, ast.Assign) and any(isinstance(t, ast.Name) and t.id == val.id for t in n.targets)]
                    if len(binds) == 1:
                        val = binds[0].value
                if isinstance(val, ast.Attribute) and isinstance(val.value, ast.Name) and val.value.id == fget.params[0]:
                    return self.method(cls_qual, val.attr)
            return fget
        raise AnalysisError("cannot resolve %s.%s to a function (%s)" % (cls_qual, name, r[0]))

    def func(self, qualname):
        fi = self.functions.get(qualname)
        if fi is None:
            raise AnalysisError("anchored function vanished: %s" % qualname)
        return fi

    def cls(self, qualname):
        ci = self.classes.get(qualname)
        if ci is None:
            raise AnalysisError("anchored class vanished: %s" % qualname)
        return ci

    def subclasses(self, ci):
        return [c for c in self.classes.values() if ci in c.mro]

    def files_digest(self):
        return [{'file': m.relpath, 'sha256': m.sha256} for m in sorted(self.modules.values(), key=lambda m: m.relpath)]

    # all members of a class by MRO (name -> Member), first definition wins
    def all_members(self, ci):
        out = {}
        for c in ci.mro:
            if isinstance(c, ClassInfo):
                for k, v in c.members.items():
                    out.setdefault(k, v)
        return out


_cache = {}


def load(repo):
    repo = os.path.abspath(repo)
    if repo not in _cache:
        _cache[repo] = Program(repo)
    return _cache[repo]
