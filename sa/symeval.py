"""Path-sensitive value numbering over function bodies (no execution of repository code).

For one function the evaluator walks the (structured) control flow of its AST and computes,
for every path, (i) the provenance term of every value, (ii) the ordered list of *events*
(calls, attribute / subscript stores, deletes, raises) with the branch conditions that guard
them and (iii) the outcome (returned term or raised exception).  Branch conditions over a
finite set of atoms are decided from assumed facts (constant propagation of option
parameters, rule-provided scenario facts); undecided atoms fork the path (mode='fork') or
are joined with phi terms (mode='join').  Loops are abstracted by one symbolic iteration
(`('elem', X, loop)` / `('idx', X, loop)`) and merged with the zero-iteration state.

This is the CFG / dominance / def-use layer of DESIGN.md realised on the structured AST
(the repository contains no construct that needs an explicit graph: no goto-like flow
besides break/continue/return/raise, which are handled here).
"""
import ast
import copy

from .loader import AnalysisError, FunctionInfo
from . import terms as T
from .terms import const, mkphi

_BINOP = {ast.Add: '+', ast.Sub: '-', ast.Mult: '*', ast.Div: '/', ast.FloorDiv: '//', ast.Mod: '%',
          ast.Pow: '**', ast.BitAnd: '&', ast.BitOr: '|', ast.BitXor: '^', ast.LShift: '<<',
          ast.RShift: '>>', ast.MatMult: '@'}
_UNOP = {ast.Not: 'not', ast.USub: '-', ast.UAdd: '+', ast.Invert: '~'}
_CMP = {ast.Eq: '==', ast.NotEq: '!=', ast.Lt: '<', ast.LtE: '<=', ast.Gt: '>', ast.GtE: '>=',
        ast.Is: 'is', ast.IsNot: 'is not', ast.In: 'in', ast.NotIn: 'not in'}

# methods that mutate their receiver (builtin containers / ndarray); used to re-bind local
# container names so that later reads see the updated container term
MUTATORS = {'append', 'insert', 'extend', 'pop', 'remove', 'sort', 'update', 'fill', 'setdefault',
            'clear', 'reverse', 'popitem', 'add', 'discard', 'resize', 'put', 'itemset', 'setflags',
            'partition', 'byteswap'}


class Event(object):
    __slots__ = ('kind', 'a', 'b', 'c', 'node', 'guards', 'frame', 'loops', 'intry')

    def __init__(self, kind, a=None, b=None, c=None, node=None, guards=(), frame=None, loops=(), intry=0):
        self.kind = kind      # call | store_attr | store_sub | store_name | del | raise | return | assert | tryfail | aug
        self.a = a
        self.b = b
        self.c = c
        self.node = node
        self.guards = guards
        self.frame = frame
        self.loops = loops
        self.intry = intry

    @property
    def lineno(self):
        return getattr(self.node, 'lineno', 0)

    def __repr__(self):
        def s(x):
            return T.show(x) if isinstance(x, tuple) else repr(x)
        return '<%s %s %s %s @%s>' % (self.kind, s(self.a), s(self.b) if self.b is not None else '',
                                      s(self.c) if self.c is not None else '', self.lineno)


class State(object):
    __slots__ = ('env', 'facts', 'events', 'guards', 'loops', 'intry')

    def __init__(self, env=None, facts=None, events=None, guards=(), loops=(), intry=0):
        self.env = env if env is not None else {}
        self.facts = facts if facts is not None else {}
        self.events = events if events is not None else []
        self.guards = guards
        self.loops = loops
        self.intry = intry

    def fork(self):
        return State(dict(self.env), dict(self.facts), list(self.events), self.guards, self.loops, self.intry)


class Path(object):
    def __init__(self, kind, value, state, node, from_inline=False):
        self.kind = kind          # 'return' | 'raise'
        self.value = value
        self.state = state
        self.node = node
        self.from_inline = from_inline

    @property
    def events(self):
        return self.state.events

    @property
    def facts(self):
        return self.state.facts

    @property
    def guards(self):
        return self.state.guards

    def calls(self, name=None):
        for e in self.state.events:
            if e.kind == 'call' and (name is None or T.call_name(e.a) == name):
                yield e

    def __repr__(self):
        return '<Path %s %s>' % (self.kind, T.show(self.value))


_NP_RETURNS_NONE = {'shuffle', 'copyto', 'put', 'place', 'putmask', 'fill', 'save', 'savez', 'savetxt', 'seed', 'seterr', 'put_along_axis'}


def _never_none(t):
    """terms whose value cannot be None: literals, arithmetic, comparisons, results of NumPy array functions and of constructors, slices of those"""
    tag = t[0]
    if tag == 'const':
        return t[1] is not None
    if tag in ('tuple', 'list', 'dict', 'set', 'comp', 'binop', 'cmp', 'fstr', 'lambda', 'partial'):
        return True
    if tag == 'sub' and t[2][0] == 'slice':
        return _never_none(t[1])
    if tag in ('mut', 'setitem'):
        return _never_none(t[1])
    if tag == 'call':
        d = T.dotted(t[1]) or ''
        if (d.startswith('np.') or d.startswith('numpy.')) and d.rsplit('.', 1)[-1] not in _NP_RETURNS_NONE:
            return True
        if d in ('list', 'tuple', 'dict', 'set', 'frozenset', 'str', 'int', 'float', 'bool', 'len', 'sorted', 'range', 'zip', 'enumerate', 'Axis', 'Axes', 'DimArray', 'Dataset'):
            return True
    return False


def canon_atom(t):
    """Canonical (atom, negated) for a boolean-valued term; or ('const', bool)."""
    neg = False
    while True:
        tag = t[0]
        if tag == 'unop' and t[1] == 'not':
            neg = not neg
            t = t[2]
            continue
        if tag == 'const':
            return ('const', bool(t[1])), neg
        if tag in ('tuple', 'list') :
            return ('const', len(t[1]) > 0), neg
        # every spelling of "is it empty?" is one atom: X.size == 0 / len(X) == 0 (sizes are non-negative integers)
        if (tag == 'attr' and t[2] == 'size') or (tag == 'call' and T.dotted(t[1]) == 'len' and len(t[2]) == 1 and not t[3]):
            return ('cmp', '==', t, ('const', 0)), not neg
        if tag == 'cmp' and t[1] in ('>', '<', '>=', '<=', '!=') and ((t[2][0] == 'const' and isinstance(t[2][1], int) and not isinstance(t[2][1], bool)) or
                                                                   (t[3][0] == 'const' and isinstance(t[3][1], int) and not isinstance(t[3][1], bool))):
            def _sized(x):
                return (x[0] == 'attr' and x[2] == 'size') or (x[0] == 'call' and T.dotted(x[1]) == 'len' and len(x[2]) == 1 and not x[3])
            op, a, b = t[1], t[2], t[3]
            if _sized(b) and a[0] == 'const':            # c op size  ->  size op' c
                op = {'>': '<', '<': '>', '>=': '<=', '<=': '>=', '!=': '!='}[op]
                a, b = b, a
            if _sized(a) and b[0] == 'const':
                c = b[1]
                empty = ('cmp', '==', a, ('const', 0))
                if (op, c) in (('>', 0), ('>=', 1), ('!=', 0)):
                    return empty, not neg
                if (op, c) in (('<', 1), ('<=', 0)):
                    return empty, neg
        if tag == 'cmp':
            op, a, b = t[1], t[2], t[3]
            if op == 'is not':
                op, neg = 'is', not neg
            elif op == '!=':
                op, neg = '==', not neg
            elif op == 'not in':
                op, neg = 'in', not neg
            elif op == '>':
                op, a, b = '<', b, a
            elif op == '>=':
                op, neg = '<', not neg
            elif op == '<=':
                op, a, b, neg = '<', b, a, not neg
            if op in ('is', '==') and T.sym_key(a) > T.sym_key(b):
                a, b = b, a
            if a[0] == 'const' and b[0] == 'const':
                try:
                    if op == 'is':
                        v = (a[1] is b[1]) if (a[1] is None or b[1] is None or isinstance(a[1], bool)
                                               or isinstance(b[1], bool)) else (a[1] == b[1] and type(a[1]) is type(b[1]))
                    elif op == '==':
                        v = a[1] == b[1]
                    elif op == '<':
                        v = a[1] < b[1]
                    else:
                        v = None
                except Exception:
                    v = None
                if v is not None:
                    return ('const', bool(v)), neg
            if op == 'in' and a[0] == 'const' and b[0] in ('tuple', 'list', 'set') \
                    and all(x[0] == 'const' for x in b[1]):
                return ('const', any(x == a for x in b[1])), neg
            if op in ('is', '==') and a == b and a[0] in ('param', 'name'):
                return ('const', True), neg
            if op == 'is' and (a == ('const', None) or b == ('const', None)):
                other = b if a == ('const', None) else a
                if _never_none(other):
                    return ('const', False), neg
            return ('cmp', op, a, b), neg
        return t, neg


class Evaluator(object):
    """Evaluate one function.

    bind    : dict param name -> term (e.g. {'inplace': const(False)})
    facts   : dict canonical atom -> bool assumed at entry
    oracle  : callable(atom, state) -> True / False / None consulted for undecided atoms
    inline  : callable(call_term, evaluator) -> FunctionInfo or None; callee bodies are evaluated in place
    mode    : 'fork' (enumerate paths) | 'join' (merge after every compound statement)
    """

    def __init__(self, program, fi, bind=None, facts=None, oracle=None, inline=None, mode='fork',
                 max_paths=4000, inline_depth=3, fork_asserts=False, self_term=None, track_assign=False, values_as_items=False):
        self.P = program
        self.fi = fi
        self.bind = bind or {}
        self.init_facts = dict(facts or {})
        self.oracle = oracle
        self.inline = inline
        self.mode = mode
        self.max_paths = max_paths
        self.inline_depth = inline_depth
        self.fork_asserts = fork_asserts
        self.track_assign = track_assign
        self.values_as_items = values_as_items       # `for v in d.values()` binds v to d[key_of(...)]: rules that read `d[k]` see the same shape
        self.paths = []
        self._loop_ids = {}
        self._try_ids = {}
        self._frames = [fi.qualname]
        self._depth = 0
        self._nforks = 0

    # ------------------------------------------------------------------ API
    def run(self):
        st = State(facts=dict(self.init_facts))
        self._bind_entry(self.fi, st)
        outs = self.exec_block(self.fi.node.body, st)
        for status, s in outs:
            self.paths.append(Path('return', T.CONST_NONE, s, self.fi.node))
        return self.paths

    def _bind_entry(self, fi, st):
        for p in fi.params + fi.kwonly:
            st.env[p] = self.bind.get(p, ('param', p))
        if fi.vararg:
            st.env[fi.vararg] = self.bind.get(fi.vararg, ('param', '*' + fi.vararg))
        if fi.kwarg:
            st.env[fi.kwarg] = self.bind.get(fi.kwarg, ('param', '**' + fi.kwarg))

    # ------------------------------------------------------------ utilities
    def _check_budget(self):
        self._nforks += 1
        if self._nforks > self.max_paths:
            raise AnalysisError("path budget exceeded in %s" % self.fi.qualname)

    def emit(self, st, kind, a=None, b=None, c=None, node=None):
        ev = Event(kind, a, b, c, node, st.guards, self._frames[-1], st.loops, st.intry)
        st.events.append(ev)
        return ev

    def loop_id(self, node):
        if node not in self._loop_ids:
            self._loop_ids[node] = ('L', self._frames[-1].rsplit('.', 1)[-1], len(self._loop_ids))
        return self._loop_ids[node]

    # --------------------------------------------------------- merge states
    def merge(self, states, base_len):
        if len(states) == 1:
            return states[0]
        first = states[0]
        env = {}
        names = []
        for s in states:
            for k in s.env:
                if k not in env:
                    env[k] = None
                    names.append(k)
        for k in names:
            vals = [s.env[k] for s in states if k in s.env]
            if k == '__aliases__':
                al = {}
                for d in vals:
                    for n, slots in d.items():
                        al[n] = al.get(n, ()) + tuple(x for x in slots if x not in al.get(n, ()))
                env[k] = al
                continue
            if k in ('__bt__', '__st__'):
                # binding times of local names / store times of attribute families: merged so that a stale alias is only reported when it is stale on
                # every merged path (latest binding, earliest store)
                keys = set(vals[0])
                for d in vals[1:]:
                    keys &= set(d)
                pick = max if k == '__bt__' else min
                env[k] = {n: pick(d[n] for d in vals) for n in keys}
                continue
            env[k] = mkphi(vals)
        facts = dict(first.facts)
        for s in states[1:]:
            for k in list(facts):
                if s.facts.get(k, None) is not facts[k]:
                    del facts[k]
        events = list(first.events[:base_len])
        seen = set(id(e) for e in events)
        for s in states:
            for e in s.events[base_len:]:
                if id(e) not in seen:
                    seen.add(id(e))
                    events.append(e)
        guards = first.guards
        for s in states[1:]:
            n = 0
            while n < len(guards) and n < len(s.guards) and guards[n] == s.guards[n]:
                n += 1
            guards = guards[:n]
        return State(env, facts, events, guards, first.loops, first.intry)

    # ------------------------------------------------------------ branching
    def lookup_fact(self, atom, st):
        if atom in st.facts:
            return st.facts[atom]
        if atom[0] == 'cmp' and atom[1] == '==' and atom[3][0] == 'const':
            # x == c' is False once x == c is known for another constant c
            for k, v in st.facts.items():
                if v and k[0] == 'cmp' and k[1] == '==' and k[2] == atom[2] and k[3][0] == 'const' and k[3] != atom[3]:
                    return False
        if atom[0] == 'cmp' and atom[1] == '<' and st.facts.get(('cmp', '<', atom[3], atom[2])) is True:
            return False     # antisymmetry of <
        if atom[0] == 'cmp' and atom[1] in ('is', '==') and atom[3] == T.CONST_NONE:
            x = atom[2]
            # freshly constructed values are never None
            if x[0] in ('tuple', 'list', 'dict', 'set', 'comp', 'binop', 'slice'):
                return False
        if self.oracle is not None:
            r = self.oracle(atom, st)
            if r is not None:
                return bool(r)
        return None

    def branch_term(self, t, st):
        """-> list of (bool, state)"""
        tag = t[0]
        if tag == 'boolop':
            want_continue = (t[1] == 'and')
            res = [(want_continue, st)]
            for item in t[2]:
                new = []
                for v, s in res:
                    if v != want_continue:
                        new.append((v, s))
                    else:
                        new.extend(self.branch_term(item, s))
                res = new
            return res
        if tag == 'unop' and t[1] == 'not':
            return [(not v, s) for v, s in self.branch_term(t[2], st)]
        if tag == 'ifexp':
            out = []
            for v, s in self.branch_term(t[1], st):
                out.extend(self.branch_term(t[2] if v else t[3], s))
            return out
        atom, neg = canon_atom(t)
        if atom[0] == 'const':
            return [(atom[1] ^ neg, st)]
        known = self.lookup_fact(atom, st)
        if known is not None:
            return [(known ^ neg, st)]
        self._check_budget()
        s1, s2 = st, st.fork()
        s1.facts[atom] = True
        s1.guards = s1.guards + ((atom, True),)
        s2.facts[atom] = False
        s2.guards = s2.guards + ((atom, False),)
        return [(True ^ neg, s1), (False ^ neg, s2)]

    def branch(self, node, st):
        out = []
        for t, s in self.ev(node, st):
            out.extend(self.branch_term(t, s))
        return out

    # ----------------------------------------------------------- statements
    @staticmethod
    def _normalise_block(stmts):
        """`X = []` followed by `for v in it: [if c:] X.append(elt)` is the list comprehension `X = [elt for v in it if c]`: both spellings get the same term.
        (only when the loop body is exactly that, has no else, and X is not read inside the loop)"""
        # pass 0: `for a, b in itertools.product(A, B): body` -> `for a in A: for b in B: body`
        def unproduct(a):
            if isinstance(a, ast.For) and not a.orelse and isinstance(a.target, ast.Tuple) and isinstance(a.iter, ast.Call) and not a.iter.keywords \
                    and ast.unparse(a.iter.func) in ('itertools.product', 'product') and len(a.iter.args) == len(a.target.elts) >= 2 \
                    and not any(isinstance(n, (ast.Break,)) for b in a.body for n in ast.walk(b)):
                body = a.body
                for tgt, it in reversed(list(zip(a.target.elts, a.iter.args))):
                    loop = ast.For(target=tgt, iter=it, body=body, orelse=[])
                    ast.copy_location(loop, a)
                    body = [loop]
                ast.fix_missing_locations(body[0])
                return body[0]
            return a
        stmts = [unproduct(a) for a in stmts]
        # pass 0b: `for v in (E for k in xs if c): body` -> `for k in xs: if c: v = E; body` (the filter of the loop source becomes a guard of the body).
        # Only for generator expressions, which are consumed one element per iteration; a list is complete before the first iteration (fetch all, then act)
        def unfilter(a):
            if isinstance(a, ast.For) and not a.orelse and isinstance(a.iter, ast.GeneratorExp) and len(a.iter.generators) == 1 \
                    and not a.iter.generators[0].is_async and not any(isinstance(n, (ast.Break,)) for b in a.body for n in ast.walk(b)):
                g = a.iter.generators[0]
                bound = {n.id for n in ast.walk(g.target) if isinstance(n, ast.Name)}
                if any(isinstance(n, ast.Name) and n.id in bound for n in ast.walk(a.target)):
                    return a
                inner = [ast.Assign(targets=[a.target], value=a.iter.elt)] + list(a.body)
                if g.ifs:
                    test = g.ifs[0] if len(g.ifs) == 1 else ast.BoolOp(op=ast.And(), values=list(g.ifs))
                    inner = [ast.If(test=test, body=inner, orelse=[])]
                loop = ast.For(target=g.target, iter=g.iter, body=inner, orelse=[])
                ast.copy_location(loop, a)
                for n in ast.walk(loop):
                    if not hasattr(n, 'lineno') and isinstance(n, (ast.stmt, ast.expr)):
                        ast.copy_location(n, a)
                ast.fix_missing_locations(loop)
                return loop
            return a
        stmts = [unfilter(a) for a in stmts]
        # pass 0c: `a, b = [], []` -> `a = []; b = []` (only fresh empty containers: nothing depends on the order)
        def fresh_empty(n):
            return (isinstance(n, (ast.List, ast.Tuple, ast.Set)) and not n.elts) or (isinstance(n, ast.Dict) and not n.keys)
        split = []
        for a in stmts:
            if isinstance(a, ast.Assign) and len(a.targets) == 1 and isinstance(a.targets[0], ast.Tuple) and isinstance(a.value, ast.Tuple) \
                    and len(a.targets[0].elts) == len(a.value.elts) and all(isinstance(t, ast.Name) for t in a.targets[0].elts) and all(fresh_empty(v) for v in a.value.elts):
                for t, v in zip(a.targets[0].elts, a.value.elts):
                    split.append(ast.copy_location(ast.Assign(targets=[t], value=v), a))
            else:
                split.append(a)
        stmts = split
        # pass 0d: partition loops.  `(X if c else Y).append(e)` is `if c: X.append(e) else: Y.append(e)`, and a loop whose body is exactly such a two-way append
        # on two lists initialised empty just before it is two filtered accumulations (one per list)
        def negate(test):
            if isinstance(test, ast.Compare) and len(test.ops) == 1:
                flip = {ast.In: ast.NotIn, ast.NotIn: ast.In, ast.Eq: ast.NotEq, ast.NotEq: ast.Eq, ast.Is: ast.IsNot, ast.IsNot: ast.Is}.get(type(test.ops[0]))
                if flip is not None:
                    return ast.copy_location(ast.Compare(left=test.left, ops=[flip()], comparators=test.comparators), test)
            if isinstance(test, ast.UnaryOp) and isinstance(test.op, ast.Not):
                return test.operand
            return ast.copy_location(ast.UnaryOp(op=ast.Not(), operand=test), test)

        def ifexp_call(st):
            if isinstance(st, ast.Expr) and isinstance(st.value, ast.Call) and isinstance(st.value.func, ast.Attribute) and isinstance(st.value.func.value, ast.IfExp):
                c, ie = st.value, st.value.func.value
                def call_on(recv):
                    return ast.copy_location(ast.Expr(value=ast.copy_location(ast.Call(func=ast.copy_location(ast.Attribute(value=recv, attr=c.func.attr, ctx=ast.Load()), c),
                                                                                       args=c.args, keywords=c.keywords), c)), st)
                return ast.copy_location(ast.If(test=ie.test, body=[call_on(ie.body)], orelse=[call_on(ie.orelse)]), st)
            return st

        def append_to(st):
            if isinstance(st, ast.Expr) and isinstance(st.value, ast.Call) and isinstance(st.value.func, ast.Attribute) and st.value.func.attr == 'append' \
                    and isinstance(st.value.func.value, ast.Name) and len(st.value.args) == 1 and not st.value.keywords:
                return st.value.func.value.id
            return None
        fis = []
        for a in stmts:
            if isinstance(a, ast.For) and not a.orelse and len(a.body) >= 2 and all(append_to(b) for b in a.body) \
                    and len({append_to(b) for b in a.body}) == len(a.body):
                # one loop filling several lists, one append each per iteration (an "unzip"): one accumulation per list
                names = [append_to(b) for b in a.body]
                empties = {}
                j = len(fis) - 1
                while j >= 0 and isinstance(fis[j], ast.Assign) and len(fis[j].targets) == 1 and isinstance(fis[j].targets[0], ast.Name) \
                        and isinstance(fis[j].value, ast.List) and not fis[j].value.elts:
                    empties[fis[j].targets[0].id] = j
                    j -= 1
                reads = {n.id for part in [a.iter] + [b.value.args[0] for b in a.body] for n in ast.walk(part) if isinstance(n, ast.Name)}
                if all(x in empties for x in names) and not (set(names) & reads):
                    inits = {x: fis[empties[x]] for x in names}
                    for k in sorted((empties[x] for x in names), reverse=True):
                        del fis[k]
                    for x, b in zip(names, a.body):
                        lx = ast.copy_location(ast.For(target=a.target, iter=a.iter, body=[b], orelse=[]), a)
                        ast.fix_missing_locations(lx)
                        fis.extend([inits[x], lx])
                    continue
            if isinstance(a, ast.For) and not a.orelse and len(a.body) == 1:
                inner = ifexp_call(a.body[0])
                if isinstance(inner, ast.If) and len(inner.body) == 1 and len(inner.orelse) == 1:
                    x, y = append_to(inner.body[0]), append_to(inner.orelse[0])
                    empties = {}
                    j = len(fis) - 1
                    while j >= 0 and isinstance(fis[j], ast.Assign) and len(fis[j].targets) == 1 and isinstance(fis[j].targets[0], ast.Name) \
                            and isinstance(fis[j].value, ast.List) and not fis[j].value.elts:
                        empties[fis[j].targets[0].id] = j
                        j -= 1
                    reads = {n.id for part in [inner.test, a.iter, inner.body[0].value.args[0] if x else a, inner.orelse[0].value.args[0] if y else a]
                             for n in ast.walk(part) if isinstance(n, ast.Name)}
                    if x and y and x != y and x in empties and y in empties and not ({x, y} & reads):
                        ix, iy = fis[empties[x]], fis[empties[y]]
                        for k in sorted((empties[x], empties[y]), reverse=True):
                            del fis[k]
                        lx = ast.copy_location(ast.For(target=a.target, iter=a.iter, body=[ast.copy_location(ast.If(test=inner.test, body=inner.body, orelse=[]), a)], orelse=[]), a)
                        ly = ast.copy_location(ast.For(target=a.target, iter=a.iter, body=[ast.copy_location(ast.If(test=negate(inner.test), body=inner.orelse, orelse=[]), a)],
                                                       orelse=[]), a)
                        for n in (lx, ly):
                            ast.fix_missing_locations(n)
                        fis.extend([ix, lx, iy, ly])
                        continue
            fis.append(a)
        stmts = fis
        # pass 1: `for i in range(len(xs)): x = xs[i]; ...` -> `for i, x in enumerate(xs): ...` (so that pass 2 sees one loop form)
        pre = []
        for a in stmts:
            if isinstance(a, ast.For) and not a.orelse and isinstance(a.target, ast.Name) and a.body \
                    and isinstance(a.iter, ast.Call) and isinstance(a.iter.func, ast.Name) and a.iter.func.id == 'range' and len(a.iter.args) == 1 \
                    and isinstance(a.iter.args[0], ast.Call) and isinstance(a.iter.args[0].func, ast.Name) and a.iter.args[0].func.id == 'len' \
                    and len(a.iter.args[0].args) == 1:
                xs = a.iter.args[0].args[0]
                first = a.body[0]
                if isinstance(first, ast.Assign) and len(first.targets) == 1 and isinstance(first.targets[0], ast.Name) and isinstance(first.value, ast.Subscript) \
                        and isinstance(first.value.slice, ast.Name) and first.value.slice.id == a.target.id and ast.dump(first.value.value) == ast.dump(xs) \
                        and first.targets[0].id != a.target.id and len(a.body) > 1:
                    new = ast.For(target=ast.Tuple(elts=[ast.Name(id=a.target.id, ctx=ast.Store()), ast.Name(id=first.targets[0].id, ctx=ast.Store())], ctx=ast.Store()),
                                  iter=ast.Call(func=ast.Name(id='enumerate', ctx=ast.Load()), args=[xs], keywords=[]), body=a.body[1:], orelse=[])
                    ast.copy_location(new, a)
                    ast.fix_missing_locations(new)
                    pre.append(new)
                    continue
            pre.append(a)
        stmts = pre
        out = []
        i = 0
        while i < len(stmts):
            a = stmts[i]
            b = stmts[i + 1] if i + 1 < len(stmts) else None
            done = False
            if isinstance(a, ast.Assign) and len(a.targets) == 1 and isinstance(a.targets[0], ast.Name) and isinstance(a.value, ast.List) and not a.value.elts \
                    and isinstance(b, ast.For) and not b.orelse and len(b.body) >= 1:
                x = a.targets[0].id
                red = Evaluator._reduce_append_body(b.body, x)
                if red is not None:
                    conds, elt = red
                    reads = [n for part in [elt, b.iter] + conds for n in ast.walk(part) if isinstance(n, ast.Name) and n.id == x]
                    if not reads:
                        comp = ast.ListComp(elt=elt, generators=[ast.comprehension(target=b.target, iter=b.iter, ifs=conds, is_async=0)])
                        new = ast.Assign(targets=[ast.Name(id=x, ctx=ast.Store())], value=comp)
                        ast.copy_location(new, b)
                        ast.copy_location(comp, b)
                        ast.fix_missing_locations(new)
                        out.append(new)
                        i += 2
                        done = True
            if not done and isinstance(a, ast.For) and not a.orelse and isinstance(a.target, ast.Name) and a.body \
                    and isinstance(a.iter, ast.Call) and isinstance(a.iter.func, ast.Name) and a.iter.func.id == 'range' and len(a.iter.args) == 1 \
                    and isinstance(a.iter.args[0], ast.Call) and isinstance(a.iter.args[0].func, ast.Name) and a.iter.args[0].func.id == 'len' \
                    and len(a.iter.args[0].args) == 1:
                # `for i in range(len(xs)): x = xs[i]; ...` is `for i, x in enumerate(xs): ...`
                xs = a.iter.args[0].args[0]
                first = a.body[0]
                if isinstance(first, ast.Assign) and len(first.targets) == 1 and isinstance(first.targets[0], ast.Name) and isinstance(first.value, ast.Subscript) \
                        and isinstance(first.value.slice, ast.Name) and first.value.slice.id == a.target.id and ast.dump(first.value.value) == ast.dump(xs) \
                        and first.targets[0].id != a.target.id and len(a.body) > 1:
                    new = ast.For(target=ast.Tuple(elts=[ast.Name(id=a.target.id, ctx=ast.Store()), ast.Name(id=first.targets[0].id, ctx=ast.Store())], ctx=ast.Store()),
                                  iter=ast.Call(func=ast.Name(id='enumerate', ctx=ast.Load()), args=[xs], keywords=[]), body=a.body[1:], orelse=[])
                    ast.copy_location(new, a)
                    ast.fix_missing_locations(new)
                    out.append(new)
                    i += 1
                    done = True
            if not done:
                out.append(a)
                i += 1
        return out

    @staticmethod
    def _reduce_append_body(stmts, x):
        """Loop body that does nothing but append one element to list `x` per (selected) iteration -> (conditions, element expression); None otherwise.
        Understands: `x.append(e)`; `if c: <body>` (filter); `if c: x.append(a) else: x.append(b)` (conditional element); a leading guard `if c: continue`;
        `if c: x.append(a); continue` followed by `x.append(b)`; a leading `t = expr` used in what follows (substituted)."""
        def is_append(st):
            return isinstance(st, ast.Expr) and isinstance(st.value, ast.Call) and isinstance(st.value.func, ast.Attribute) and st.value.func.attr == 'append' \
                and isinstance(st.value.func.value, ast.Name) and st.value.func.value.id == x and len(st.value.args) == 1 and not st.value.keywords

        def subst(node, name, value):
            class Sub(ast.NodeTransformer):
                def visit_Name(self, n):
                    if n.id == name and isinstance(n.ctx, ast.Load):
                        return ast.copy_location(copy.deepcopy(value), n)
                    return n
            return Sub().visit(copy.deepcopy(node))

        def red(stmts):
            if not stmts:
                return None
            first = stmts[0]
            if len(stmts) == 1 and is_append(first):
                return [], first.value.args[0]
            if len(stmts) == 1 and isinstance(first, ast.If):
                if first.orelse:
                    r1, r2 = red(first.body), red(first.orelse)
                    if r1 is not None and r2 is not None and not r1[0] and not r2[0]:
                        return [], ast.copy_location(ast.IfExp(test=first.test, body=r1[1], orelse=r2[1]), first)
                    return None
                r = red(first.body)
                return None if r is None else ([first.test] + r[0], r[1])
            if isinstance(first, ast.If) and not first.orelse and len(first.body) == 1 and isinstance(first.body[0], ast.Continue):
                r = red(stmts[1:])
                return None if r is None else ([ast.copy_location(ast.UnaryOp(op=ast.Not(), operand=first.test), first)] + r[0], r[1])
            if isinstance(first, ast.If) and not first.orelse and len(first.body) == 2 and is_append(first.body[0]) and isinstance(first.body[1], ast.Continue):
                r = red(stmts[1:])
                if r is not None and not r[0]:
                    return [], ast.copy_location(ast.IfExp(test=first.test, body=first.body[0].value.args[0], orelse=r[1]), first)
                return None
            if isinstance(first, ast.If) and not first.orelse and len(first.body) == 1 and isinstance(first.body[0], ast.Assign) and len(first.body[0].targets) == 1 \
                    and isinstance(first.body[0].targets[0], ast.Name) and first.body[0].targets[0].id != x and len(stmts) > 1:
                # `if c: v = e` then the rest: v stands for (e if c else v) in what follows (used once there, so nothing is evaluated twice)
                t = first.body[0].targets[0].id
                r = red(stmts[1:])
                if r is None:
                    return None
                uses = sum(1 for part in r[0] + [r[1]] for n in ast.walk(part) if isinstance(n, ast.Name) and n.id == t)
                if uses != 1:
                    return None
                repl = ast.copy_location(ast.IfExp(test=first.test, body=first.body[0].value, orelse=ast.Name(id=t, ctx=ast.Load())), first)
                return [subst(c, t, repl) for c in r[0]], subst(r[1], t, repl)
            if isinstance(first, ast.Assign) and len(first.targets) == 1 and isinstance(first.targets[0], ast.Name) and first.targets[0].id != x \
                    and not any(isinstance(n, (ast.Call, ast.Yield, ast.Await, ast.NamedExpr)) for n in ast.walk(first.value)):
                # (only call-free right-hand sides are substituted: no evaluation is duplicated or re-ordered)
                r = red(stmts[1:])
                if r is None:
                    return None
                t = first.targets[0].id
                return [subst(c, t, first.value) for c in r[0]], subst(r[1], t, first.value)
            return None
        return red(list(stmts))

    def exec_block(self, stmts, st):
        """-> list of (status, state); status None | 'break' | 'continue'"""
        states = [(None, st)]
        if not getattr(self, '_no_renormalise', False):
            stmts = self._normalise_block(stmts)
        else:
            self._no_renormalise = False          # (only the synthetic block itself; nested blocks are normalised as usual)
        for stmt in stmts:
            new = []
            for status, s in states:
                if status is not None:
                    new.append((status, s))
                    continue
                new.extend(self.exec_stmt(stmt, s))
            states = new
            if not states:
                break
        return states

    def _join_after(self, outs, base_len):
        """mode=='join': merge all continuing states (per status)"""
        if self.mode != 'join' or len(outs) <= 1:
            return outs
        by = {}
        for status, s in outs:
            by.setdefault(status, []).append(s)
        return [(status, self.merge(ss, base_len)) for status, ss in by.items()]

    def exec_stmt(self, node, st):
        m = getattr(self, 'st_' + node.__class__.__name__, None)
        if m is None:
            raise AnalysisError("unsupported statement %s in %s:%s" % (node.__class__.__name__, self.fi.file, node.lineno))
        return m(node, st)

    def st_Pass(self, node, st):
        return [(None, st)]

    st_Global = st_Nonlocal = st_Pass

    def st_Expr(self, node, st):
        return [(None, s) for _, s in self.ev(node.value, st)]

    def st_Import(self, node, st):
        for a in node.names:
            st.env[a.asname or a.name.split('.')[0]] = ('name', a.asname or a.name.split('.')[0])
        return [(None, st)]

    def st_ImportFrom(self, node, st):
        for a in node.names:
            st.env[a.asname or a.name] = ('name', a.asname or a.name)
        return [(None, st)]

    def st_FunctionDef(self, node, st):
        q = self._frames[-1] + '.<locals>.' + node.name
        st.env[node.name] = ('localfn', q)
        # the environment the function closes over (it may be called from another frame: handed to a helper that calls it)
        root = self
        while getattr(root, '_parent_eval', None) is not None:
            root = root._parent_eval
        if not hasattr(root, '_closures'):
            root._closures = {}
        root._closures[q] = st.env
        return [(None, st)]

    def st_ClassDef(self, node, st):
        st.env[node.name] = ('unknown', 'localclass:' + node.name)
        return [(None, st)]

    def st_Return(self, node, st):
        if node.value is None:
            self._finish('return', T.CONST_NONE, st, node)
            return []
        for t, s in self.ev(node.value, st):
            self._finish('return', t, s, node)
        return []

    def _finish(self, kind, value, st, node):
        self.emit(st, kind, value, node=node)
        self._sink(Path(kind, value, st, node))

    def _sink(self, path):
        self._sinks[-1].append(path)

    @property
    def _sinks(self):
        if not hasattr(self, '_sink_stack'):
            self._sink_stack = [self.paths]
        return self._sink_stack

    def st_Raise(self, node, st):
        if node.exc is None:
            self._finish('raise', ('name', '<reraise>'), st, node)
            return []
        for t, s in self.ev(node.exc, st):
            self._finish('raise', t, s, node)
        return []

    def st_Assert(self, node, st):
        out = []
        for t, s0 in self.ev(node.test, st):
            alts = self.branch_term(t, s0)
            passing = [(v, s) for v, s in alts if v]
            for v, s in alts:
                if not v and self.fork_asserts:
                    self._finish('raise', ('call', ('name', 'AssertionError'), (), ()), s, node)
            if not passing and not self.fork_asserts:
                # condition decided False: the assert always fails
                self._finish('raise', ('call', ('name', 'AssertionError'), (), ()), s0, node)
            for _, s in passing:
                # asserts are assumed to hold on the continuing path, but are remembered
                self.emit(s, 'assert', t, node=node)
                out.append((None, s))
        return out

    def st_Delete(self, node, st):
        states = [st]
        for tgt in node.targets:
            new = []
            for s in states:
                if isinstance(tgt, ast.Name):
                    s.env.pop(tgt.id, None)
                    new.append(s)
                elif isinstance(tgt, ast.Subscript):
                    for (o, i), s2 in self.ev_seq([tgt.value, tgt.slice], s):
                        self.emit(s2, 'del', o, i, node=node)
                        new.append(s2)
                elif isinstance(tgt, ast.Attribute):
                    for o, s2 in self.ev(tgt.value, s):
                        self.emit(s2, 'del', o, const(tgt.attr), 'attr', node=node)
                        new.append(s2)
                else:
                    new.append(s)
            states = new
        return [(None, s) for s in states]

    def assign_target(self, tgt, value, st, node):
        """-> list of states"""
        if isinstance(tgt, ast.Name):
            if self.track_assign:
                self.emit(st, 'assign', tgt.id, value, st.env.get(tgt.id), node=node)
            st.env[tgt.id] = value
            if '__aliases__' in st.env:
                self._drop_alias(st, tgt.id)
            if value[0] == 'attr' and value[1][0] == 'param':
                bt = dict(st.env.get('__bt__', {}))
                bt[tgt.id] = len(st.events)
                st.env['__bt__'] = bt
            elif '__bt__' in st.env and tgt.id in st.env['__bt__']:
                bt = dict(st.env['__bt__'])
                del bt[tgt.id]
                st.env['__bt__'] = bt
            return [st]
        if isinstance(tgt, (ast.Tuple, ast.List)):
            states = [st]
            n = len(tgt.elts)
            for i, el in enumerate(tgt.elts):
                if isinstance(el, ast.Starred):
                    sub = ('unknown', 'starred-unpack')
                    el = el.value
                else:
                    # (`a, b = (p, q) if c else (r, s)`: each target is the conditional of the corresponding components; likewise through merged alternatives)
                    sub = self._component(value, i, n)
                    if sub is None:
                        sub = ('item', value, i)
                new = []
                for s in states:
                    new.extend(self.assign_target(el, sub, s, node))
                states = new
            return states
        if isinstance(tgt, ast.Attribute):
            out = []
            for o, s in self.ev(tgt.value, st):
                self.emit(s, 'store_attr', o, tgt.attr, value, node=node)
                if o[0] == 'param':
                    stt = dict(s.env.get('__st__', {}))
                    stt[(o, tgt.attr.lstrip('_'))] = len(s.events)
                    s.env['__st__'] = stt
                out.append(s)
            return out
        if isinstance(tgt, ast.Subscript):
            out = []
            for (o, i), s in self.ev_seq([tgt.value, tgt.slice], st):
                if isinstance(tgt.value, ast.Name) and o[0] == 'attr' and '__st__' in s.env and tgt.value.id in s.env.get('__bt__', {}):
                    # `x = self.a` ... `self._a = <new object>` ... `x[i] = v`: the write goes to the object x was bound to, not to what self.a holds now
                    t_store = s.env['__st__'].get((o[1], o[2].lstrip('_')))
                    if t_store is not None and s.env['__bt__'][tgt.value.id] < t_store:
                        self.emit(s, 'stale', o, tgt.value.id, value, node=node)
                self.emit(s, 'store_sub', o, i, value, node=node)
                # re-bind local container names
                if isinstance(tgt.value, ast.Name) and tgt.value.id in s.env:
                    s.env[tgt.value.id] = ('setitem', o, i, value)
                    self._propagate_alias(s, tgt.value.id)
                out.append(s)
            return out
        if isinstance(tgt, ast.Starred):
            return self.assign_target(tgt.value, value, st, node)
        raise AnalysisError("unsupported assignment target at %s:%s" % (self.fi.file, node.lineno))

    # --- one object under two names: `box['k'] = part = {}` (or `part = {}; box['k'] = part`) followed by `part[x] = y` changes what box['k'] holds.
    # Terms are values, so the link is kept on the side: env['__aliases__'] maps the local name of a fresh container to the (container name, key) slots
    # that hold the same object; a later mutation of the name re-stores its new value in those slots.
    @staticmethod
    def _fresh_container(t):
        while t[0] in ('setitem', 'mut'):
            t = t[1]
        return t[0] in ('dict', 'list', 'set') or (t[0] == 'call' and T.dotted(t[1]) in ('dict', 'list', 'set', 'OrderedDict', 'collections.OrderedDict') and not t[2] and not t[3])

    def _register_alias(self, st, name, holder, key):
        al = dict(st.env.get('__aliases__', {}))
        al[name] = tuple(x for x in al.get(name, ()) if x != (holder, key)) + ((holder, key),)
        st.env['__aliases__'] = al

    def _drop_alias(self, st, name):
        al = st.env.get('__aliases__')
        if al and (name in al or any(h == name for slots in al.values() for h, _ in slots)):
            al = {n: tuple(x for x in slots if x[0] != name) for n, slots in al.items() if n != name}
            st.env['__aliases__'] = {n: slots for n, slots in al.items() if slots}

    def _propagate_alias(self, st, name):
        al = st.env.get('__aliases__')
        if not al or name not in al:
            return
        for holder, key in al[name]:
            if holder in st.env and name in st.env:
                st.env[holder] = ('setitem', st.env[holder], key, st.env[name])

    def st_Assign(self, node, st):
        out = []
        for v, s in self.ev(node.value, st):
            states = [s]
            for tgt in node.targets:
                new = []
                for s2 in states:
                    new.extend(self.assign_target(tgt, v, s2, node))
                states = new
            names = [t.id for t in node.targets if isinstance(t, ast.Name)]
            slots = [t for t in node.targets if isinstance(t, ast.Subscript) and isinstance(t.value, ast.Name)]
            if isinstance(node.value, ast.Name) and node.value.id != '__aliases__':
                names = names + [node.value.id]
            if names and slots and self._fresh_container(v):
                for s2 in states:
                    for t in slots:
                        if t.value.id in s2.env:
                            holder_term = s2.env[t.value.id]
                            key = holder_term[2] if holder_term[0] == 'setitem' else None
                            if key is not None:
                                for n in names:
                                    if n in s2.env and n != t.value.id:
                                        self._register_alias(s2, n, t.value.id, key)
            out.extend((None, s2) for s2 in states)
        return out

    def st_AnnAssign(self, node, st):
        if node.value is None:
            return [(None, st)]
        out = []
        for v, s in self.ev(node.value, st):
            out.extend((None, s2) for s2 in self.assign_target(node.target, v, s, node))
        return out

    def st_AugAssign(self, node, st):
        op = _BINOP[type(node.op)]
        out = []
        tgt = node.target
        if isinstance(tgt, ast.Name):
            for v, s in self.ev(node.value, st):
                old = s.env.get(tgt.id, ('name', tgt.id))
                self.emit(s, 'aug', old, op, v, node=node)
                s.env[tgt.id] = ('binop', op, old, v)
                out.append((None, s))
        elif isinstance(tgt, ast.Attribute):
            for (o, v), s in self.ev_seq([tgt.value, node.value], st):
                old = ('attr', o, tgt.attr)
                self.emit(s, 'aug', old, op, v, node=node)
                self.emit(s, 'store_attr', o, tgt.attr, ('binop', op, old, v), node=node)
                out.append((None, s))
        elif isinstance(tgt, ast.Subscript):
            for (o, i, v), s in self.ev_seq([tgt.value, tgt.slice, node.value], st):
                old = ('sub', o, i)
                self.emit(s, 'store_sub', o, i, ('binop', op, old, v), node=node)
                out.append((None, s))
        else:
            raise AnalysisError("unsupported augmented target")
        return out

    def st_If(self, node, st):
        base = len(st.events)
        outs = []
        for v, s in self.branch(node.test, st):
            outs.extend(self.exec_block(node.body if v else node.orelse, s))
        return self._join_after(outs, base)

    def _loop_target_terms(self, it, lid):
        """How loop targets bind for `for <tgt> in <it>`; returns a function tgt_node -> binder"""
        return it

    def bind_loop_target(self, tgt, it, lid, st, node):
        """bind target(s) of an iteration over term `it`; returns list of states"""
        name = T.call_name(it) if it[0] == 'call' else None
        if name == 'enumerate' and T.dotted(it[1]) == 'enumerate' and len(it[2]) >= 1 \
                and isinstance(tgt, (ast.Tuple, ast.List)) and len(tgt.elts) == 2:
            x = it[2][0]
            states = self.assign_target(tgt.elts[0], ('idx', x, lid), st, node)
            out = []
            for s in states:
                out.extend(self.bind_loop_target(tgt.elts[1], x, lid, s, node) if False else
                           self.assign_target(tgt.elts[1], ('elem', x, lid), s, node))
            return out
        if name == 'range' and T.dotted(it[1]) == 'range' and len(it[2]) == 1 and not it[3] and isinstance(tgt, ast.Name) and it[2][0][0] == 'call' \
                and T.dotted(it[2][0][1]) == 'len' and len(it[2][0][2]) == 1 and it[2][0][2][0][0] in ('param', 'attr', 'name', 'call', 'sub'):
            # `for i in range(len(xs))`: i is the index `for i, x in enumerate(xs)` gives, and xs[i] the element (see _subscript)
            return self.assign_target(tgt, ('idx', it[2][0][2][0], lid), st, node)
        if name == 'zip' and T.dotted(it[1]) == 'zip' and isinstance(tgt, (ast.Tuple, ast.List)) \
                and len(tgt.elts) == len(it[2]) and not any(a[0] == 'star' for a in it[2]):
            states = [st]
            for el, x in zip(tgt.elts, it[2]):
                new = []
                for s in states:
                    new.extend(self.assign_target(el, ('elem', x, lid), s, node))
                states = new
            return states
        if name == 'items' and it[1][0] == 'attr' and not it[2] and not it[3] and isinstance(tgt, (ast.Tuple, ast.List)) and len(tgt.elts) == 2 \
                and not any(isinstance(e, ast.Starred) for e in tgt.elts):
            # `for k, v in d.items()`: v is d[k] (the same term as the spelling `for k in d: v = d[k]`)
            key = ('item', ('elem', it, lid), 0)
            out = []
            for s in self.assign_target(tgt.elts[0], key, st, node):
                out.extend(self.assign_target(tgt.elts[1], ('sub', it[1][1], key), s, node))
            return out
        if name == 'reversed' and T.dotted(it[1]) == 'reversed' and len(it[2]) == 1:
            return self.assign_target(tgt, ('elem', it[2][0], lid), st, node)
        if name == 'values' and it[1][0] == 'attr' and not it[2] and not it[3] and isinstance(tgt, ast.Name) and self.values_as_items:
            # `for v in d.values()`: v is d[<its key>] (the same shape as `for k in d: v = d[k]` / `for k, v in d.items()`)
            return self.assign_target(tgt, ('sub', it[1][1], ('call', ('name', 'key_of'), (('elem', it, lid),), ())), st, node)
        return self.assign_target(tgt, ('elem', it, lid), st, node)

    @staticmethod
    def _assigned_names(body):
        """names (re)bound by plain assignment inside a loop body, in order of first assignment"""
        out = []

        def tgt(t):
            if isinstance(t, ast.Name):
                if t.id not in out:
                    out.append(t.id)
            elif isinstance(t, (ast.Tuple, ast.List)):
                for e in t.elts:
                    tgt(e)
            elif isinstance(t, ast.Starred):
                tgt(t.value)
        for st in body:
            for n in ast.walk(st):
                if isinstance(n, ast.Assign):
                    for t in n.targets:
                        tgt(t)
                elif isinstance(n, (ast.AugAssign, ast.AnnAssign)):
                    tgt(n.target)
                elif isinstance(n, (ast.FunctionDef, ast.Lambda)):
                    pass
        return out

    def _bind_carried(self, body, st, lid):
        """loop-carried variables: inside the body a name that is re-assigned there may hold its
        pre-loop value (first iteration) or the value of the previous iteration"""
        for k, name in enumerate(self._assigned_names(body)):
            if name in st.env:
                st.env[name] = mkphi([st.env[name], ('carried', lid, k)])

    def _unroll_generator(self, node):
        """`for T in g(args): body [else: E]` where g is a generator helper the rules do not know (an extracted block): the generator's body with each
        `yield e` replaced by `T = e; body`, followed by E.  Exact when the loop body neither breaks nor continues (a `return` leaves the enclosing function in
        both spellings) and the generator has no `return`.  -> list of statements, or None"""
        resolver = getattr(self.inline, 'generator', None) if self.inline is not None else None
        it = node.iter
        if resolver is None or not isinstance(it, ast.Call):
            return None
        if isinstance(it.func, ast.Name):
            f = ('name', it.func.id)
        elif isinstance(it.func, ast.Attribute) and isinstance(it.func.value, ast.Name) and it.func.value.id == 'self':
            f = ('attr', ('param', 'self'), it.func.attr)
        else:
            return None
        g = resolver(('call', f, (), ()), self)
        if g is None or g.qualname in self._frames or g.vararg or g.kwarg or any(isinstance(a, ast.Starred) for a in it.args) or any(k.arg is None for k in it.keywords):
            return None

        def own_level(stmts, kinds):
            for s in stmts:
                if isinstance(s, kinds):
                    return True
                if isinstance(s, (ast.For, ast.While, ast.FunctionDef, ast.ClassDef, ast.Lambda)):
                    continue
                for field in ('body', 'orelse', 'finalbody', 'handlers'):
                    sub = getattr(s, field, None)
                    if isinstance(sub, list) and own_level([x for x in sub if isinstance(x, ast.stmt)] +
                                                           [y for x in sub if isinstance(x, ast.ExceptHandler) for y in x.body], kinds):
                        return True
            return False
        if own_level(node.body, (ast.Break, ast.Continue)):
            return None
        gbody = [b for b in g.node.body if not (isinstance(b, ast.Expr) and isinstance(b.value, ast.Constant))]
        if any(isinstance(n, (ast.Return, ast.FunctionDef, ast.Lambda, ast.ClassDef, ast.Global, ast.Nonlocal, ast.Await)) for b in gbody for n in ast.walk(b)):
            return None
        params = list(g.params)
        is_method = g.cls is not None and not any(ast.unparse(d) == 'staticmethod' for d in (getattr(g, 'decorators', None) or []))
        args = list(it.args)
        if is_method:
            if f[0] != 'attr':
                return None
            args = [ast.Name(id='self', ctx=ast.Load())] + args
        kws = {k.arg: k.value for k in it.keywords}
        defaults = {}
        a = g.node.args
        pos = a.posonlyargs + a.args
        for p_, d in zip(pos[len(pos) - len(a.defaults):], a.defaults):
            defaults[p_.arg] = d
        for p_, d in zip(a.kwonlyargs, a.kw_defaults):
            if d is not None:
                defaults[p_.arg] = d
        if len(args) > len(params):
            return None
        locals_ = set(params) | set(getattr(g, 'kwonly', ()) or ())
        for b in gbody:
            for n in ast.walk(b):
                if isinstance(n, ast.Name) and isinstance(n.ctx, (ast.Store, ast.Del)):
                    locals_.add(n.id)
        prefix = '__g%d_' % len(self._frames)
        class Ren(ast.NodeTransformer):
            def visit_Name(self_, n):
                if n.id in locals_:
                    return ast.copy_location(ast.Name(id=prefix + n.id, ctx=n.ctx), n)
                return n
        out = []
        allp = params + list(getattr(g, 'kwonly', ()) or ())
        for i, p_ in enumerate(allp):
            if i < len(args) and i < len(params):
                v = args[i]
            elif p_ in kws:
                v = kws.pop(p_)
            elif p_ in defaults:
                v = defaults[p_]
            else:
                return None
            out.append(ast.Assign(targets=[ast.Name(id=prefix + p_, ctx=ast.Store())], value=v))
        if kws:
            return None
        ok = [True]
        loop = node

        def rewrite(stmts):
            res = []
            for s in stmts:
                if isinstance(s, ast.Expr) and isinstance(s.value, ast.Yield):
                    val = Ren().visit(copy.deepcopy(s.value.value)) if s.value.value is not None else ast.Constant(value=None)
                    res.append(ast.Assign(targets=[copy.deepcopy(loop.target)], value=val))
                    res.extend(copy.deepcopy(loop.body))
                    continue
                if isinstance(s, ast.Expr) and isinstance(s.value, ast.YieldFrom):
                    res.append(ast.For(target=copy.deepcopy(loop.target), iter=Ren().visit(copy.deepcopy(s.value.value)), body=copy.deepcopy(loop.body), orelse=[]))
                    continue
                if isinstance(s, (ast.If, ast.For, ast.While, ast.With, ast.Try)):
                    s2 = copy.copy(s)
                    for field in ('test', 'iter', 'target', 'items'):
                        if hasattr(s, field):
                            v = getattr(s, field)
                            if isinstance(v, list):
                                setattr(s2, field, [Ren().visit(copy.deepcopy(x)) for x in v])
                            else:
                                setattr(s2, field, Ren().visit(copy.deepcopy(v)))
                    for field in ('body', 'orelse', 'finalbody'):
                        if hasattr(s, field):
                            setattr(s2, field, rewrite(getattr(s, field)))
                    if isinstance(s, ast.Try):
                        hs = []
                        for h in s.handlers:
                            h2 = copy.copy(h)
                            h2.body = rewrite(h.body)
                            hs.append(h2)
                        s2.handlers = hs
                    res.append(s2)
                    continue
                if any(isinstance(n, (ast.Yield, ast.YieldFrom)) for n in ast.walk(s)):
                    ok[0] = False
                res.append(Ren().visit(copy.deepcopy(s)))
            return res
        out.extend(rewrite(gbody))
        if not ok[0]:
            return None
        out.extend(copy.deepcopy(node.orelse))
        for n in out:
            for m in ast.walk(n):
                if isinstance(m, (ast.stmt, ast.expr)) and not hasattr(m, 'lineno'):
                    ast.copy_location(m, node)
            ast.fix_missing_locations(n)
        return out

    @staticmethod
    def _alt_arity(value):
        """common length of the tuple / list displays a value may stand for (None when they differ or something else is among them)"""
        lens = set()
        for x in T.value_alts(value):
            if x[0] in ('tuple', 'list') and not any(y[0] == 'star' for y in x[1]):
                lens.add(len(x[1]))
            else:
                return None
        return lens.pop() if len(lens) == 1 else None

    @staticmethod
    def _component(value, i, n):
        """i-th of the n components of a value that is a tuple / list display, or alternatives (phi, conditional expression) of such; None otherwise"""
        if value[0] in ('tuple', 'list'):
            if len(value[1]) == n and not any(x[0] == 'star' for x in value[1]):
                return value[1][i]
            return None
        if value[0] == 'comp' and value[1] in ('gen', 'list') and len(value[3]) == 1 and not value[3][0][2] and value[3][0][1][0] in ('tuple', 'list') \
                and len(value[3][0][1][1]) == n and not any(x[0] == 'star' for x in value[3][0][1][1]):
            # `a, b = (f(x) for x in (p, q))`: f(p), f(q)
            clid, src, _ = value[3][0]
            return T.replace(value[2], ('elem', src, clid), src[1][i])
        if value[0] == 'phi':
            parts = [Evaluator._component(x, i, n) for x in value[1]]
            return None if any(p_ is None for p_ in parts) else mkphi(parts)
        if value[0] == 'ifexp':
            a, b = Evaluator._component(value[2], i, n), Evaluator._component(value[3], i, n)
            if a is None or b is None:
                return None
            return a if a == b else ('ifexp', value[1], a, b)
        return None

    @staticmethod
    def _literal_items(t):
        """items of a sequence whose content is known: a list / tuple display, possibly grown by append / insert(<constant>) / extend(<display>) / `+`"""
        if t[0] in ('tuple', 'list'):
            return None if any(x[0] == 'star' for x in t[1]) else list(t[1])
        if t[0] == 'mut' and t[2] in ('append', 'insert', 'extend'):
            base = Evaluator._literal_items(t[1])
            if base is None or t[1][0] == 'tuple':
                return None
            if t[2] == 'append' and len(t[3]) == 1:
                return base + [t[3][0]]
            if t[2] == 'insert' and len(t[3]) == 2 and t[3][0][0] == 'const' and isinstance(t[3][0][1], int) and not isinstance(t[3][0][1], bool):
                base.insert(t[3][0][1], t[3][1])
                return base
            if t[2] == 'extend' and len(t[3]) == 1:
                more = Evaluator._literal_items(t[3][0])
                return None if more is None else base + more
            return None
        if t[0] == 'binop' and t[1] == '+':
            a, b = Evaluator._literal_items(t[2]), Evaluator._literal_items(t[3])
            return None if a is None or b is None else a + b
        return None

    def st_For(self, node, st):
        unrolled = self._unroll_generator(node)
        if unrolled is not None:
            return self.exec_block(unrolled, st)
        outs = []
        for it, s0 in self.ev(node.iter, st):
            base = len(s0.events)
            lit = self._literal_items(it)
            if lit is not None and 0 < len(lit) <= 8:
                # a loop over a literal sequence (a pair of bounds, a dispatch table of lambdas): one pass per item, in order
                states = [s0]
                broken = []
                for item in lit:
                    new = []
                    for s in states:
                        for s1 in self.assign_target(node.target, item, s, node):
                            for status, s2 in self.exec_block(node.body, s1):
                                (broken if status == 'break' else new).append(s2)
                    states = new
                    if not states:
                        break
                res = []
                for s in states:
                    res.extend(self.exec_block(node.orelse, s) if node.orelse else [(None, s)])
                res.extend((None, s) for s in broken)
                outs.extend(self._join_after(res, base))
                continue
            lid = self.loop_id(node)
            zero = s0.fork()                       # zero iterations
            if it[0] == 'phi' and not node.orelse and all(x[0] == 'comp' and x[1] == 'gen' and x[3] for x in it[1]) and len(it[1]) <= 4 and self.mode == 'join':
                # either of several generators (chosen by an earlier test that was merged): the loop is run for each of them in turn
                cur = s0
                for alt in it[1]:
                    synth = ast.For(target=node.target, iter=ast.Name(id='__phi_alt', ctx=ast.Load()), body=node.body, orelse=[])
                    ast.copy_location(synth, node)
                    ast.copy_location(synth.iter, node)
                    self._loop_ids.setdefault(synth, self.loop_id(node))
                    cur.env['__phi_alt'] = alt
                    res = self.st_For(synth, cur)
                    cur = res[0][1]
                    cur.env.pop('__phi_alt', None)
                outs.append((None, cur))
                continue
            if it[0] == 'comp' and it[1] == 'gen' and it[3] and not node.orelse:
                # a loop over a comprehension built earlier (a generator handed to a helper): the iterations are those of the comprehension's own loops, filtered by
                # its conditions, and the loop variable is its element
                s0.loops = s0.loops + tuple(g[0] for g in it[3]) + (lid,)
                self._bind_carried(node.body, s0, lid)
                for g in it[3]:
                    for c in g[2]:
                        atom, neg = canon_atom(c)
                        if atom[0] != 'const':
                            s0.guards = s0.guards + ((atom, not neg),)
                conts = []
                for s1 in self.assign_target(node.target, it[2], s0, node):
                    for g in it[3]:
                        self.emit(s1, 'loop', g[1], g[0], node=node)
                    for status, s2 in self.exec_block(node.body, s1):
                        conts.append(s2)
                for s in conts:
                    s.loops = zero.loops
                    s.guards = zero.guards
                merged = self.merge([zero] + conts, base) if conts else zero
                merged.guards = zero.guards
                merged.facts = dict(zero.facts)
                outs.append((None, merged))
                continue
            s0.loops = s0.loops + (lid,)
            self._bind_carried(node.body, s0, lid)
            conts = []
            for s1 in self.bind_loop_target(node.target, it, lid, s0, node):
                self.emit(s1, 'loop', it, lid, node=node)
                for status, s2 in self.exec_block(node.body, s1):
                    conts.append(s2)               # None / break / continue all leave the iteration
            for s in conts:
                s.loops = zero.loops
                s.guards = zero.guards
            merged = self.merge([zero] + conts, base) if conts else zero
            merged.guards = zero.guards
            # facts learnt inside the loop body are iteration-specific: keep the pre-loop ones
            merged.facts = dict(zero.facts)
            outs.extend(self.exec_block(node.orelse, merged) if node.orelse else [(None, merged)])
        return outs

    def st_While(self, node, st):
        base = len(st.events)
        lid = self.loop_id(node)
        zero = st.fork()
        conts = []
        for v, s in self.branch(node.test, st):
            if not v:
                continue
            s.loops = s.loops + (lid,)
            self._bind_carried(node.body, s, lid)
            for status, s2 in self.exec_block(node.body, s):
                conts.append(s2)
        for s in conts:
            s.loops = zero.loops
            s.guards = zero.guards
        merged = self.merge([zero] + conts, base) if conts else zero
        merged.facts = dict(zero.facts)
        merged.guards = zero.guards
        return [(None, merged)]

    def st_With(self, node, st):
        states = [st]
        for item in node.items:
            new = []
            for s in states:
                for t, s2 in self.ev(item.context_expr, s):
                    if item.optional_vars is not None:
                        new.extend(self.assign_target(item.optional_vars, ('call', ('attr', t, '__enter__'), (), ()), s2, node))
                    else:
                        new.append(s2)
            states = new
        outs = []
        for s in states:
            outs.extend(self.exec_block(node.body, s))
        return outs

    def st_Try(self, node, st):
        base = len(st.events)
        tid = self._try_ids.setdefault(node, ('T', len(self._try_ids)))
        pre = st.fork()
        outs = []
        # normal completion
        st.intry += 1
        body_outs = self.exec_block(node.body, st)
        for status, s in body_outs:
            s.intry -= 1
            if status is None and node.orelse:
                outs.extend(self.exec_block(node.orelse, s))
            else:
                outs.append((status, s))
        # exceptional completion: every handler may start from the pre-try state (the events of
        # the body are kept as 'may have happened')
        for h in node.handlers:
            hs = pre.fork()
            seen = set(id(e) for e in hs.events)
            for status, s in body_outs:
                for e in s.events[base:]:
                    if id(e) not in seen and e.kind == 'call':
                        seen.add(id(e))
                        hs.events.append(e)
            atom = ('tryfail', tid, ast.unparse(h.type) if h.type is not None else '*')
            hs.facts[atom] = True
            hs.guards = hs.guards + ((atom, True),)
            self.emit(hs, 'tryfail', atom, node=h)
            if h.name:
                hs.env[h.name] = ('exc', tid)
            outs.extend(self.exec_block(h.body, hs))
        if node.finalbody:
            new = []
            for status, s in outs:
                for status2, s2 in self.exec_block(node.finalbody, s):
                    new.append((status2 or status, s2))
            outs = new
        return self._join_after(outs, base)

    def st_Break(self, node, st):
        return [('break', st)]

    def st_Continue(self, node, st):
        return [('continue', st)]

    def _old_keyword_names(self, f, kws):
        """keyword arguments of a call of a repository function whose parameters have been renamed since the rules were written are given under the old
        names (see rules.renamed_params): rules keep reading T.kw(call, '<old name>')"""
        if not kws or not any(k != '**' for k, _ in kws):
            return kws
        target = None
        try:
            if f[0] == 'name':
                target = self.fi.module.functions.get(f[1])
                if target is None:
                    r = self.P.resolve_name(self.fi.module, f[1])
                    if r is not None and r[0] == 'func':
                        target = r[1]
            elif f[0] == 'attr' and f[1] == ('param', 'self') and self.fi.cls is not None:
                m = self.P.lookup(self.fi.cls, f[2])
                if m is not None and m.kind == 'func':
                    target = m.value
        except Exception:
            target = None
        if target is None:
            return kws
        from .rules import renamed_params
        ren = renamed_params(target)
        if not ren:
            return kws
        return [(ren.get(k, k), v) for k, v in kws]

    def _repo_function_names(self):
        names = getattr(self.P, '_short_function_names', None)
        if names is None:
            names = set(q.rsplit('.', 1)[-1] for q in self.P.functions)
            names -= {'get', 'pop', 'copy', 'take', 'index', 'keys', 'values', 'items', 'where', 'nonzero', 'split'}      # also names of builtin / NumPy methods
            try:
                self.P._short_function_names = names
            except Exception:
                pass
        return names

    # ---------------------------------------------------------- expressions
    def ev_seq(self, nodes, st):
        """-> list of (tuple_of_terms, state)"""
        res = [((), st)]
        for n in nodes:
            new = []
            for ts, s in res:
                for t, s2 in self.ev(n, s):
                    new.append((ts + (t,), s2))
            res = new
        return res

    def ev(self, node, st):
        m = getattr(self, 'ex_' + node.__class__.__name__, None)
        if m is None:
            raise AnalysisError("unsupported expression %s in %s:%s" % (node.__class__.__name__, self.fi.file, getattr(node, 'lineno', 0)))
        return m(node, st)

    def ex_Constant(self, node, st):
        return [(const(node.value), st)]

    def ex_Name(self, node, st):
        if node.id in st.env:
            return [(st.env[node.id], st)]
        if node.id in ('True', 'False', 'None'):
            return [(const({'True': True, 'False': False, 'None': None}[node.id]), st)]
        g = self._new_global(node.id)
        if g is not None:
            return [(g, st)]
        return [(('name', node.id), st)]

    def _new_global(self, name):
        """a module-level constant that did not exist when the rules were written (a dispatch table, a tuple of names, a message) is read as its value:
        assigned once, from literals / lambdas / containers of those"""
        mod = self.fi.module
        vals = mod.assigns.get(name)
        if not vals or len(vals) != 1:
            return None
        from .rules import known_globals
        if '%s.%s' % (mod.name, name) in known_globals():
            return None
        cache = getattr(mod, '_global_terms', None)
        if cache is None:
            cache = mod._global_terms = {}
        if name in cache:
            return cache[name]
        cache[name] = None           # (cycles)
        expr = vals[0]
        ok_nodes = (ast.Tuple, ast.List, ast.Dict, ast.Set, ast.Constant, ast.Lambda, ast.Name, ast.Attribute, ast.Load, ast.arguments, ast.arg, ast.Call, ast.keyword,
                    ast.Compare, ast.BoolOp, ast.UnaryOp, ast.BinOp, ast.IfExp, ast.Subscript, ast.Starred, ast.cmpop, ast.boolop, ast.unaryop, ast.operator, ast.expr_context, ast.ListComp, ast.GeneratorExp, ast.SetComp, ast.DictComp, ast.comprehension, ast.Slice, ast.JoinedStr, ast.FormattedValue)
        if not all(isinstance(n, ok_nodes) for n in ast.walk(expr)):
            return None
        try:
            sub = Evaluator(self.P, self.fi, mode='join', inline=self.inline)
            sub._depth = self._depth + 50
            res = sub.ev(expr, State())
            term = res[0][0] if len(res) == 1 else None
        except AnalysisError:
            term = None
        cache[name] = term
        return term

    def ex_Attribute(self, node, st):
        return [(('attr', t, node.attr), s) for t, s in self.ev(node.value, st)]

    def ex_Subscript(self, node, st):
        out = []
        for (o, i), s in self.ev_seq([node.value, node.slice], st):
            out.append((self._subscript(o, i), s))
        return out

    def _subscript(self, o, i):
        # f(...)[k] of a repository function is the k-th item of its result: the same term as the k-th target of `a, b = f(...)`
        if o[0] == 'call' and i[0] == 'const' and isinstance(i[1], int) and not isinstance(i[1], bool) and i[1] >= 0 \
                and T.dotted(o[1]) not in ('tuple', 'list', 'sorted', 'reversed', 'set', 'dict', 'range', 'np.asarray', 'np.array', 'np.asanyarray', 'np.atleast_1d',
                                           'np.ravel', 'np.sort', 'np.argsort', 'np.arange', 'np.diff', 'np.concatenate'):       # (these yield a sequence of data, not a tuple of results)
            return ('item', o, i[1])
        # a literal sequence sliced with constant bounds is the literal sub-sequence ((a, b)[::-1] is (b, a))
        if o[0] in ('tuple', 'list') and i[0] == 'slice' and all(x[0] == 'const' and (x[1] is None or (isinstance(x[1], int) and not isinstance(x[1], bool))) for x in i[1:4]) \
                and not any(x[0] == 'star' for x in o[1]):
            return (o[0], tuple(o[1][slice(i[1][1], i[2][1], i[3][1])]))
        if o[0] in ('tuple', 'list') and i[0] == 'const' and isinstance(i[1], int) \
                and not any(x[0] == 'star' for x in o[1]) and -len(o[1]) <= i[1] < len(o[1]):
            return o[1][i[1]]
        if i[0] == 'idx' and len(i) == 3 and i[1] == o:
            return ('elem', o, i[2])                       # xs[i] with i the running index over xs: the element of that iteration
        if i[0] == 'const':
            r = T.container_lookup(o, i) if o[0] in ('dict', 'setitem', 'call') else None
            if r is not None:
                return r
        return ('sub', o, i)

    def ex_Slice(self, node, st):
        parts = [node.lower, node.upper, node.step]
        res = [((), st)]
        for p in parts:
            new = []
            for ts, s in res:
                if p is None:
                    new.append((ts + (T.CONST_NONE,), s))
                else:
                    for t, s2 in self.ev(p, s):
                        new.append((ts + (t,), s2))
            res = new
        return [(('slice',) + ts, s) for ts, s in res]

    def ex_Tuple(self, node, st):
        return [(('tuple', ts), s) for ts, s in self.ev_seq(node.elts, st)]

    def ex_List(self, node, st):
        def canon(ts):
            # `[a, b, *rest]` reads as `[a, b] + rest`, `[*first, z]` as `first + [z]` (one term for both spellings of "a list with something in front / behind")
            stars = [i for i, t in enumerate(ts) if t[0] == 'star']
            if len(ts) >= 2 and stars == [len(ts) - 1]:
                return self._mkbinop('+', ('list', tuple(ts[:-1])), ts[-1][1])
            if len(ts) >= 2 and stars == [0]:
                return self._mkbinop('+', ts[0][1], ('list', tuple(ts[1:])))
            return ('list', ts)
        return [(canon(ts), s) for ts, s in self.ev_seq(node.elts, st)]

    def ex_Set(self, node, st):
        return [(('set', ts), s) for ts, s in self.ev_seq(node.elts, st)]

    def ex_Starred(self, node, st):
        return [(('star', t), s) for t, s in self.ev(node.value, st)]

    def ex_Dict(self, node, st):
        keys = [k for k in node.keys]
        res = [((), st)]
        for k, v in zip(node.keys, node.values):
            new = []
            for items, s in res:
                if k is None:
                    for vt, s2 in self.ev(v, s):
                        new.append((items + ((('const', '**'), vt),), s2))
                else:
                    for (kt, vt), s2 in self.ev_seq([k, v], s):
                        new.append((items + ((kt, vt),), s2))
            res = new
        return [(('dict', items), s) for items, s in res]

    def ex_BinOp(self, node, st):
        op = _BINOP[type(node.op)]
        return [(self._mkbinop(op, l, r), s) for (l, r), s in self.ev_seq([node.left, node.right], st)]

    @staticmethod
    def _mkbinop(op, l, r):
        # `xs[:w] + [e] + xs[w:]` is xs with e inserted at w (list.insert semantics, also for w < 0 or beyond the end): same term as `xs.insert(w, e)`
        if op == '+' and l[0] == 'binop' and l[1] == '+' and l[3][0] == 'list' and len(l[3][1]) == 1 and l[2][0] == 'sub' and r[0] == 'sub' and l[2][1] == r[1] \
                and l[2][2][0] == 'slice' and r[2][0] == 'slice' and l[2][2][1] == T.CONST_NONE and l[2][2][3] == T.CONST_NONE and r[2][2] == T.CONST_NONE \
                and r[2][3] == T.CONST_NONE and l[2][2][2] == r[2][1] and l[3][1][0][0] != 'star':
            return ('mut', r[1], 'insert', (r[2][1], l[3][1][0]))
        return ('binop', op, l, r)

    def ex_UnaryOp(self, node, st):
        op = _UNOP[type(node.op)]
        out = []
        for t, s in self.ev(node.operand, st):
            if op == '-' and t[0] == 'const' and isinstance(t[1], (int, float)) and not isinstance(t[1], bool):
                out.append((const(-t[1]), s))
            elif op == 'not':
                atom, neg = canon_atom(('unop', 'not', t))
                if atom[0] == 'const':
                    out.append((const(atom[1] ^ neg), s))
                else:
                    out.append((('unop', 'not', t), s))
            else:
                out.append((('unop', op, t), s))
        return out

    def ex_BoolOp(self, node, st):
        op = 'and' if isinstance(node.op, ast.And) else 'or'
        out = []
        for ts, s in self.ev_seq(node.values, st):
            out.append((self._fold_boolop(op, ts, s), s))
        return out

    def _fold_boolop(self, op, items, st):
        """constant-fold a boolean operator using known facts (value context).  Only operands
        that are boolean-valued terms (comparisons, not, bool constants) are folded, so the
        value semantics of `x or default` is preserved."""
        kept = []
        for idx, t in enumerate(items):
            known = None
            if self._is_boolean_term(t):
                atom, neg = canon_atom(t)
                if atom[0] == 'const':
                    known = atom[1] ^ neg
                else:
                    k = self.lookup_fact(atom, st)
                    if k is not None:
                        known = k ^ neg
            elif t[0] == 'const':
                known = bool(t[1])
            if known is None:
                kept.append(t)
                continue
            short = (op == 'and' and not known) or (op == 'or' and known)
            val = const(known) if self._is_boolean_term(t) else t
            if short:
                kept.append(val)
                break
            if idx == len(items) - 1:
                kept.append(val)   # last operand: its value is the result
        if len(kept) == 1:
            return kept[0]
        return ('boolop', op, tuple(kept))

    @staticmethod
    def _is_boolean_term(t):
        return t[0] == 'cmp' or (t[0] == 'const' and isinstance(t[1], bool)) or (t[0] == 'unop' and t[1] == 'not')

    def ex_Compare(self, node, st):
        out = []
        for ts, s in self.ev_seq([node.left] + list(node.comparators), st):
            parts = []
            for i, op in enumerate(node.ops):
                parts.append(T.mkcmp(_CMP[type(op)], ts[i], ts[i + 1]))
            t = parts[0] if len(parts) == 1 else ('boolop', 'and', tuple(parts))
            if len(parts) == 1:
                atom, neg = canon_atom(t)
                if atom[0] == 'const':
                    t = const(atom[1] ^ neg)
            out.append((t, s))
        return out

    def ex_IfExp(self, node, st):
        out = []
        for c, s in self.ev(node.test, st):
            atom, neg = canon_atom(c)
            known = None
            if atom[0] == 'const':
                known = atom[1] ^ neg
            elif c[0] not in ('boolop', 'ifexp'):
                k = self.lookup_fact(atom, s)
                if k is not None:
                    known = k ^ neg
            if known is True:
                out.extend(self.ev(node.body, s))
            elif known is False:
                out.extend(self.ev(node.orelse, s))
            else:
                # what happens inside a branch happens under the test's outcome: events raised there carry it as a guard (when the outcome is one
                # conjunction of atoms - the single way a test can be true, or false)
                from .rules import cond_paths
                try:
                    cps = cond_paths(c)
                except Exception:
                    cps = []
                yes = [g for g, truth in cps if truth]
                no = [g for g, truth in cps if not truth]
                saved = s.guards
                pairs = []
                s.guards = saved + tuple(yes[0]) if len(yes) == 1 else saved
                ra = self.ev(node.body, s)
                for a, s_a in ra:
                    s_a.guards = saved + tuple(no[0]) if len(no) == 1 else saved
                    for b, s_b in self.ev(node.orelse, s_a):
                        s_b.guards = saved
                        pairs.append(((a, b), s_b))
                for (a, b), s2 in pairs:
                    if not neg and a == c and c[0] in ('param', 'name', 'attr'):
                        out.append((('boolop', 'or', (c, b)), s2))          # `x if x else y` is `x or y`
                        continue
                    # canonical polarity: `x if p != q else y` and `y if p == q else x` are the same term
                    if neg and c[0] not in ('boolop', 'ifexp'):
                        out.append((('ifexp', atom, b, a), s2))
                    else:
                        out.append((('ifexp', (atom if c[0] not in ('boolop', 'ifexp') else c), a, b), s2))
        return out

    def ex_JoinedStr(self, node, st):
        vals = [v.value for v in node.values if isinstance(v, ast.FormattedValue)]
        return [(('fstr', ts), s) for ts, s in self.ev_seq(vals, st)]

    def ex_FormattedValue(self, node, st):
        return self.ev(node.value, st)

    def ex_Lambda(self, node, st):
        params = [a.arg for a in node.args.args]
        self._depth += 1
        s2 = st.fork()
        for i, p in enumerate(params):
            s2.env[p] = ('bv', self._depth, i)
        res = self.ev(node.body, s2)
        self._depth -= 1
        body = res[0][0]
        return [(('lambda', len(params), body, self._depth + 1), st)]

    def ex_Yield(self, node, st):
        if node.value is None:
            return [(('yield', T.CONST_NONE), st)]
        out = []
        for t, s in self.ev(node.value, st):
            self.emit(s, 'yield', t, node=node)
            out.append((('yield', t), s))
        return out

    ex_YieldFrom = ex_Yield

    def ex_NamedExpr(self, node, st):
        out = []
        for t, s in self.ev(node.value, st):
            s.env[node.target.id] = t
            out.append((t, s))
        return out

    # comprehensions ---------------------------------------------------------
    def _comp(self, node, kind, elts, st):
        # (a comprehension is one expression: whatever is evaluated inside it - inlined helpers included - is merged, never forked)
        if self.mode != 'join' and kind in ('list', 'gen') and len(elts) == 1 and self._calls_new_helper([elts[0]] + [c for g in node.generators for c in g.ifs], st):
            # a helper whose returning paths make one conditional value (`if c: return a` / `return b`) leaves the comprehension a comprehension
            before = getattr(self, '_phi_merges', 0)
            saved_mode, saved_paths = self.mode, list(self.paths)
            self.mode = 'join'
            try:
                trial = self._comp_inner(node, kind, elts, st.fork())
            except AnalysisError:
                trial = None
            finally:
                self.mode = saved_mode
            if trial is not None and getattr(self, '_phi_merges', 0) == before and len(self.paths) == len(saved_paths) and len(trial) == 1 \
                    and trial[0][0][0] == 'comp':
                comp = trial[0][0]
                outside = set(x for g in comp[3] for x in T.subterms(g[1]) if x[0] == 'phi')
                inside = set(x for part in (comp[2],) + tuple(c for g in comp[3] for c in g[2]) for x in T.subterms(part) if x[0] == 'phi')
                if inside <= outside:
                    return trial
            self.paths[:] = saved_paths
            self._phi_merges = before
            # the element goes through a helper that will be evaluated in place: read the comprehension as the accumulating loop it stands for, so that the
            # helper's branches keep their guards (a comprehension term would merge them)
            acc = '_cacc%d' % self._depth
            body = [ast.Expr(value=ast.Call(func=ast.Attribute(value=ast.Name(id=acc, ctx=ast.Load()), attr='append', ctx=ast.Load()), args=[elts[0]], keywords=[]))]
            for g in reversed(node.generators):
                for c in reversed(g.ifs):
                    body = [ast.If(test=c, body=body, orelse=[])]
                body = [ast.For(target=g.target, iter=g.iter, body=body, orelse=[])]
            stmts = [ast.Assign(targets=[ast.Name(id=acc, ctx=ast.Store())], value=ast.List(elts=[], ctx=ast.Load()))] + body
            for b in stmts:
                ast.copy_location(b, node)
                ast.fix_missing_locations(b)
            self._no_renormalise = True
            try:
                outs = self.exec_block(stmts, st)
            finally:
                self._no_renormalise = False
            return [(s2.env.get(acc, ('unknown', 'comprehension')), s2) for status, s2 in outs]
        saved_mode = self.mode
        self.mode = 'join'
        try:
            return self._comp_inner(node, kind, elts, st)
        finally:
            self.mode = saved_mode

    def _calls_new_helper(self, nodes, st):
        if self.inline is None:
            return False
        for n0 in nodes:
            for n in ast.walk(n0):
                if not isinstance(n, ast.Call):
                    continue
                f = None
                if isinstance(n.func, ast.Name) and n.func.id not in st.env:
                    f = ('name', n.func.id)
                elif isinstance(n.func, ast.Attribute) and isinstance(n.func.value, ast.Name) and n.func.value.id in st.env:
                    f = ('attr', st.env[n.func.value.id], n.func.attr)
                if f is None:
                    continue
                try:
                    if self.inline(('call', f, (), ()), self) is not None:
                        return True
                except Exception:
                    pass
        return False

    def _comp_inner(self, node, kind, elts, st):
        self._depth += 1
        depth = self._depth
        s = st.fork()
        nev = len(s.events)
        gens = []
        generators = []
        for g in node.generators:
            # `for a, b in itertools.product(A, B)` is `for a in A for b in B`
            if isinstance(g.target, ast.Tuple) and isinstance(g.iter, ast.Call) and not g.iter.keywords and ast.unparse(g.iter.func) in ('itertools.product', 'product') \
                    and len(g.iter.args) == len(g.target.elts) >= 2:
                pairs = list(zip(g.target.elts, g.iter.args))
                for k, (tgt, it) in enumerate(pairs):
                    generators.append(ast.comprehension(target=tgt, iter=it, ifs=(g.ifs if k == len(pairs) - 1 else []), is_async=0))
            else:
                generators.append(g)
        def ev1(n, s_):
            # (the state is threaded: an inlined helper hands back a merged state object, not the one it was given)
            t_, s2_ = self.ev(n, s_)[0]
            return t_, s2_
        for gi, g in enumerate(generators):
            lid = ('c', depth, gi)
            it, s = ev1(g.iter, s)
            self.bind_loop_target(g.target, it, lid, s, node)
            # bind_loop_target works in place on s for plain targets
            conds = []
            for c in g.ifs:
                ct, s = ev1(c, s)
                conds.append(ct)
            gens.append((lid, it, tuple(conds)))
        es = []
        for e in elts:
            et, s = ev1(e, s)
            es.append(et)
        es = tuple(es)
        self._depth -= 1
        # events raised inside the comprehension body are kept (flagged by loop context)
        for e in s.events[nev:]:
            e.loops = e.loops + tuple(g[0] for g in gens)
            st.events.append(e)
        elt = es[0] if len(es) == 1 else ('tuple', es)
        # the identity comprehension [x for x in xs] is list(xs): one term for both spellings
        if kind == 'list' and len(gens) == 1 and not gens[0][2] and elt == ('elem', gens[0][1], gens[0][0]):
            return [(('call', ('name', 'list'), (gens[0][1],), ()), st)]
        return [(('comp', kind, elt, tuple(gens)), st)]

    def ex_ListComp(self, node, st):
        return self._comp(node, 'list', [node.elt], st)

    def ex_SetComp(self, node, st):
        return self._comp(node, 'set', [node.elt], st)

    def ex_GeneratorExp(self, node, st):
        return self._comp(node, 'gen', [node.elt], st)

    def ex_DictComp(self, node, st):
        return self._comp(node, 'dict', [node.key, node.value], st)

    # calls --------------------------------------------------------------------
    _OPERATOR_FUNCS = {'or_': '|', 'and_': '&', 'xor': '^', 'add': '+', 'sub': '-', 'mul': '*', 'truediv': '/', 'floordiv': '//', 'mod': '%', 'pow': '**'}
    _OPERATOR_CMPS = {'eq': '==', 'ne': '!=', 'lt': '<', 'le': '<=', 'gt': '>', 'ge': '>=', 'is_': 'is', 'is_not': 'is not', 'contains': None}

    def _functional_form(self, node, st):
        """map / filter / functools.reduce / list(generator) spelled as the comprehension or loop they stand for (same terms as the explicit spelling)"""
        fn = node.func
        name = fn.id if isinstance(fn, ast.Name) else (ast.unparse(fn) if isinstance(fn, ast.Attribute) else None)
        if name is None or node.keywords or any(isinstance(a, ast.Starred) for a in node.args):
            return None
        if isinstance(fn, ast.Name) and name in st.env:
            return None                                    # shadowed by a local
        var = ast.Name(id='_fv%d' % self._depth, ctx=ast.Load())
        tgt = ast.Name(id=var.id, ctx=ast.Store())
        new = None

        def _apply(f_, x_):
            # map(obj.__getitem__, xs) is [obj[x] for x in xs]
            if isinstance(f_, ast.Attribute) and f_.attr == '__getitem__':
                return ast.Subscript(value=f_.value, slice=x_, ctx=ast.Load())
            return ast.Call(func=f_, args=[x_], keywords=[])
        if name == 'map' and len(node.args) == 2:
            new = ast.GeneratorExp(elt=_apply(node.args[0], var), generators=[ast.comprehension(target=tgt, iter=node.args[1], ifs=[], is_async=0)])
        elif name == 'filter' and len(node.args) == 2:
            test = var if (isinstance(node.args[0], ast.Constant) and node.args[0].value is None) else ast.Call(func=node.args[0], args=[var], keywords=[])
            new = ast.GeneratorExp(elt=var, generators=[ast.comprehension(target=tgt, iter=node.args[1], ifs=[test], is_async=0)])
        elif name in ('list',) and len(node.args) == 1 and isinstance(node.args[0], ast.GeneratorExp):
            new = ast.ListComp(elt=node.args[0].elt, generators=node.args[0].generators)
        elif name in ('list',) and len(node.args) == 1 and isinstance(node.args[0], ast.Call) and isinstance(node.args[0].func, ast.Name) \
                and node.args[0].func.id in ('map', 'filter') and node.args[0].func.id not in st.env and len(node.args[0].args) == 2 and not node.args[0].keywords:
            inner = node.args[0]
            if inner.func.id == 'map':
                new = ast.ListComp(elt=_apply(inner.args[0], var), generators=[ast.comprehension(target=tgt, iter=inner.args[1], ifs=[], is_async=0)])
            else:
                test = var if (isinstance(inner.args[0], ast.Constant) and inner.args[0].value is None) else ast.Call(func=inner.args[0], args=[var], keywords=[])
                new = ast.ListComp(elt=var, generators=[ast.comprehension(target=tgt, iter=inner.args[1], ifs=[test], is_async=0)])
        elif name in ('functools.reduce', 'reduce') and len(node.args) == 3:
            # acc = init; for x in xs: acc = f(acc, x)
            acc = '_facc%d' % self._depth
            body = [ast.Assign(targets=[ast.Name(id=acc, ctx=ast.Store())], value=node.args[2]),
                    ast.For(target=tgt, iter=node.args[1], orelse=[],
                            body=[ast.Assign(targets=[ast.Name(id=acc, ctx=ast.Store())], value=ast.Call(func=node.args[0], args=[ast.Name(id=acc, ctx=ast.Load()), var], keywords=[]))])]
            for b in body:
                ast.copy_location(b, node)
                ast.fix_missing_locations(b)
            self._depth += 1
            try:
                outs = self.exec_block(body, st)
            finally:
                self._depth -= 1
            res = []
            for status, s in outs:
                res.append((s.env.get(acc, ('unknown', 'reduce')), s))
            return res
        if new is None:
            return None
        ast.copy_location(new, node)
        ast.fix_missing_locations(new)
        self._depth += 1
        try:
            return self.ev(new, st)
        finally:
            self._depth -= 1

    def _tuple_arity(self, call, _depth=0, _module=None):
        """number of results of a repository function whose every return statement is a tuple literal of one length (None otherwise)"""
        f = call[1]
        target = None
        try:
            if f[0] == 'name' and _module is not None:
                target = _module.functions.get(f[1])
            elif f[0] == 'name':
                target = self.fi.module.functions.get(f[1])
                if target is None:
                    r = self.P.resolve_name(self.fi.module, f[1])
                    if r is not None and r[0] == 'func':
                        target = r[1]
            elif f[0] == 'attr' and f[1] == ('param', 'self') and self.fi.cls is not None:
                m = self.P.lookup(self.fi.cls, f[2])
                if m is not None and m.kind == 'func':
                    target = m.value
        except Exception:
            target = None
        if target is None:
            return None
        lens = set()
        for n in ast.walk(target.node):
            if isinstance(n, (ast.FunctionDef, ast.Lambda)) and n is not target.node:
                return None
            if isinstance(n, ast.Return):
                if isinstance(n.value, ast.Tuple) and not any(isinstance(e, ast.Starred) for e in n.value.elts):
                    lens.add(len(n.value.elts))
                elif isinstance(n.value, ast.Call) and isinstance(n.value.func, ast.Name) and n.value.func.id in target.module.functions \
                        and n.value.func.id != target.name and _depth < 3:
                    k = self._tuple_arity(('call', ('name', n.value.func.id), (), ()), _depth + 1, target.module)
                    if k is None:
                        return None
                    lens.add(k)
                else:
                    return None
        return lens.pop() if len(lens) == 1 else None

    def ex_Call(self, node, st):
        ff = self._functional_form(node, st)
        if ff is not None:
            return ff
        out = []
        kwnodes = [k.value for k in node.keywords]
        for ts, s in self.ev_seq([node.func] + list(node.args) + kwnodes, st):
            f = ts[0]
            args = ts[1:1 + len(node.args)]
            kws = []
            for k, v in zip(node.keywords, ts[1 + len(node.args):]):
                if k.arg is None:
                    # **mapping: expand literal mappings
                    exp = self._expand_mapping(v)
                    if exp is not None:
                        kws.extend(exp)
                    else:
                        kws.append(('**', v))
                else:
                    kws.append((k.arg, v))
            # *tuple literal expansion
            xargs = []
            for a in args:
                if a[0] == 'star' and a[1][0] in ('tuple', 'list') and not any(x[0] == 'star' for x in a[1][1]):
                    xargs.extend(a[1][1])
                elif a[0] == 'star' and a[1][0] in ('ifexp', 'phi') and self._alt_arity(a[1]):
                    # f(*(t1 if c else t2)) with tuples of one length: the conditional components
                    n_ = self._alt_arity(a[1])
                    xargs.extend(self._component(a[1], k, n_) for k in range(n_))
                elif a[0] == 'star' and a[1][0] == 'comp' and a[1][1] in ('gen', 'list') and len(a[1][3]) == 1 and not a[1][3][0][2] \
                        and a[1][3][0][1][0] in ('tuple', 'list') and a[1][3][0][1][1] and all(x[0] == 'const' for x in a[1][3][0][1][1]):
                    # f(*[g(k) for k in ('a', 'b', ...)]) over a literal sequence of constants: g('a'), g('b'), ...
                    n_ = len(a[1][3][0][1][1])
                    xargs.extend(self._component(a[1], k, n_) for k in range(n_))
                elif a[0] == 'star' and a[1][0] == 'call' and self._tuple_arity(a[1]):
                    # f(*g(...)) where g always returns an n-tuple: the n items
                    xargs.extend(('item', a[1], k) for k in range(self._tuple_arity(a[1])))
                else:
                    xargs.append(a)
            kws = self._old_keyword_names(f, kws)
            d = T.dotted(f)
            # functools.partial(f, ...) is kept as a partial application; calling it later supplies the remaining arguments
            if d in ('functools.partial', 'partial') and xargs and not any(k == '**' for k, _ in kws):
                out.append((('partial', xargs[0], tuple(xargs[1:]), tuple(kws)), s))
                continue
            # operator.or_(a, b) and friends are the operators
            if d and d.startswith('operator.') and len(xargs) == 2 and not kws:
                on = d.split('.', 1)[1]
                if on in self._OPERATOR_FUNCS:
                    out.append((('binop', self._OPERATOR_FUNCS[on], xargs[0], xargs[1]), s))
                    continue
                if self._OPERATOR_CMPS.get(on):
                    out.append((T.mkcmp(self._OPERATOR_CMPS[on], xargs[0], xargs[1]), s))
                    continue
            # dict(base, k=v, ...) is base with the entries k set (the spelling `base[k] = v` of a local mapping gives the same term)
            if d == 'dict' and len(xargs) == 1 and kws and not any(k == '**' for k, _ in kws):
                t = xargs[0]
                for k, v in kws:
                    t = ('setitem', t, const(k), v)
                out.append((t, s))
                continue
            # dict(k=v, ...) is the display {'k': v, ...}
            if d == 'dict' and not xargs and kws and not any(k == '**' for k, _ in kws) and 'dict' not in s.env:
                out.append((('dict', tuple((const(k), v) for k, v in kws)), s))
                continue
            # g(functools.partial(w, k=v, ...), ...) where g hands its own **kwargs on to the worker it is given (reduce_axis, apply_along_axis): the options bound
            # to the worker beforehand are the options g would have handed on - the same term as g(w, ..., k=v, ...)
            if f[0] == 'attr' and f[2] in self.KWARGS_TO_WORKER and xargs and xargs[0][0] == 'call' and T.dotted(xargs[0][1]) in ('functools.partial', 'partial') \
                    and len(xargs[0][2]) == 1 and not (set(k for k, _ in xargs[0][3] if k != '**') & set(k for k, _ in kws)) \
                    and not (any(k == '**' for k, _ in xargs[0][3]) and any(k == '**' for k, _ in kws)):
                part = xargs[0]
                xargs = [part[2][0]] + list(xargs[1:])
                kws = list(kws) + list(part[3])
            call = ('call', f, tuple(xargs), tuple(kws))
            out.extend(self._do_call(call, node, s))
        return out

    KWARGS_TO_WORKER = ('reduce_axis', 'apply_along_axis')

    @staticmethod
    def _expand_mapping(v):
        if v[0] == 'dict' and all(k[0] == 'const' and isinstance(k[1], str) and k[1] != '**' for k, _ in v[1]):
            return [(k[1], x) for k, x in v[1]]
        if v[0] == 'call' and T.dotted(v[1]) == 'dict' and not v[2] and all(k != '**' for k, _ in v[3]):
            return list(v[3])
        return None

    # NumPy signatures: positional arguments after the first are read as the keywords they stand for (`values.take(ii, pos, out, mode)` is
    # `values.take(ii, axis=pos, out=out, mode=mode)`), so that both spellings give one term.  Only on receivers that are recognisably ndarrays.
    # (the table holds the functions for which the library itself writes the keyword spelling - the one the rules were written against)
    _NDARRAY_METHODS = {'take': ('indices', 'axis', 'out', 'mode')}
    _NDARRAY_KEEP = {'take': 1}
    _NP_FUNCS = {'take': ('a', 'indices', 'axis', 'out', 'mode')}
    _NP_KEEP = {'take': 2}

    @classmethod
    def _numpy_keywords(cls, call):
        f = call[1]
        if f[0] != 'attr' or any(a[0] == 'star' for a in call[2]) or any(k == '**' for k, _ in call[3]):
            return call
        sig = keep = None
        if f[1] in (('name', 'np'), ('name', 'numpy')):
            sig, keep = cls._NP_FUNCS.get(f[2]), cls._NP_KEEP.get(f[2])
        elif (f[1][0] == 'attr' and f[1][2] in ('values', '_values')) or (f[1][0] == 'call' and T.dotted(f[1][1]) in ('np.asarray', 'np.array', 'np.asanyarray')):
            sig, keep = cls._NDARRAY_METHODS.get(f[2]), cls._NDARRAY_KEEP.get(f[2], 0)
        if sig is None or keep is None or len(call[2]) <= keep or len(call[2]) > len(sig):
            return call
        given = dict(call[3])
        extra = []
        for name, val in zip(sig[keep:], call[2][keep:]):
            if name in given:
                return call
            extra.append((name, val))
        return ('call', f, tuple(call[2][:keep]), tuple(extra) + tuple(call[3]))

    def _do_call(self, call, node, st):
        call = self._numpy_keywords(call)
        f = call[1]
        # beta-reduce immediately applied lambdas
        if f[0] == 'lambda' and len(call[2]) == f[1] and not call[3]:
            body = subst_bv(f[2], f[3], call[2])
            # the calls made by the body happen now (they were not recorded when the lambda was built): inner ones first
            made = []
            stack = [body]
            while stack:
                x = stack.pop()
                if not isinstance(x, tuple) or not x:
                    continue
                if isinstance(x[0], str) and x[0] in ('lambda', 'const'):
                    continue
                if x[0] == 'call':
                    made.append(x)
                stack.extend(y for y in x[1:] if isinstance(y, tuple))
            for x in reversed(made):
                self.emit(st, 'call', x, node=node)
            return [(body, st)]
        if f[0] == 'partial':
            merged = dict(f[3])
            merged.update(dict(call[3]))
            return self._do_call(('call', f[1], tuple(f[2]) + tuple(call[2]), tuple(merged.items())), node, st)
        if f[0] == 'attr' and f[1] == ('name', 'operator') and len(call[2]) == 2 and not call[3]:
            if f[2] in self._OPERATOR_FUNCS:
                return [(('binop', self._OPERATOR_FUNCS[f[2]], call[2][0], call[2][1]), st)]
            if self._OPERATOR_CMPS.get(f[2]):
                return [(T.mkcmp(self._OPERATOR_CMPS[f[2]], call[2][0], call[2][1]), st)]
        # a callee chosen by a conditional expression (`g = a.f if c else a.h; g(x)`): the call is distributed over the alternatives
        if f[0] == 'ifexp':
            atom, neg = canon_atom(f[1])
            saved = st.guards
            alts = []
            for branch, pol in ((f[2], True), (f[3], False)):
                st.guards = saved + ((atom, pol ^ neg),)
                alts.append(self._do_call(('call', branch, call[2], call[3]), node, st)[0][0])
            st.guards = saved
            return [(('ifexp', f[1], alts[0], alts[1]), st)]
        # a callee that is one of several functions (picked from a dispatch table in a merged loop): the call is made on each of them
        if f[0] == 'phi' and 2 <= len(f[1]) <= 4 and all(x[0] in ('name', 'localfn', 'lambda', 'attr') for x in f[1]):
            res = []
            caller_env = st.env
            for branch in f[1]:
                r = self._do_call(('call', branch, call[2], call[3]), node, st)
                if r:                                   # (an alternative that always raises contributes no value)
                    res.append(mkphi([x for x, _ in r]))
                    st = r[-1][1]
                st.env = caller_env
            return [(mkphi(res), st)] if res else []
        target = None
        if f[0] == 'localfn':
            target = self.P.functions.get(f[1])
        elif self.inline is not None:
            target = self.inline(call, self)
        if target is not None and len(self._frames) <= self.inline_depth and target.qualname not in self._frames:
            return self._inline_call(target, call, node, st)
        ev = self.emit(st, 'call', call, node=node)
        # re-bind mutated local containers
        if f[0] == 'attr' and f[2] in MUTATORS and isinstance(node.func, ast.Attribute) \
                and isinstance(node.func.value, ast.Name) and node.func.value.id in st.env \
                and f[1][0] not in ('param', 'name', 'attr'):
            st.env[node.func.value.id] = ('mut', f[1], f[2], call[2])
            self._propagate_alias(st, node.func.value.id)
        return [(call, st)]

    def _inline_call(self, fi, call, node, st):
        """Evaluate the body of `fi` in place.  Returns list of (return_term, state)."""
        f = call[1]
        args = list(call[2])
        kws = dict((k, v) for k, v in call[3] if k != '**')
        params = list(fi.params)
        env = {}
        # bound method call: receiver is the first parameter
        is_static = any(ast.unparse(d) == 'staticmethod' for d in (getattr(fi, 'decorators', None) or []))
        if (fi.cls is not None or (f[0] == 'attr' and self._is_method_style(fi, f))) and not is_static:
            if f[0] == 'attr' and not self._is_module_attr(f):
                args = [f[1]] + args
        starkw = [v for k, v in call[3] if k == '**']
        passthrough = None
        if starkw:
            # **m can be bound when m is a known extension of a mapping that goes to the callee's own **kwargs: m = base{k1: v1, ...}; the explicit
            # entries become keywords, the base is handed on. Anything else cannot be bound precisely.
            m = starkw[0]
            extra = []
            while m[0] == 'setitem' and m[2][0] == 'const' and isinstance(m[2][1], str):
                extra.append((m[2][1], m[3]))
                m = m[1]
            if len(starkw) == 1 and fi.kwarg and m[0] in ('param', 'dict', 'name', 'setitem', 'phi', 'call', 'attr') and not any(k in kws for k, _ in extra):
                for k, v in reversed(extra):
                    kws.setdefault(k, v)
                passthrough = m
            elif len(starkw) == 1 and m[0] == 'dict' and not m[1]:
                for k, v in reversed(extra):
                    kws.setdefault(k, v)
            else:
                self.emit(st, 'call', call, node=node)
                return [(call, st)]
        if any(a[0] == 'star' for a in args):
            # cannot bind precisely
            self.emit(st, 'call', call, node=node)
            return [(call, st)]
        defaults = fi.defaults()
        sub = Evaluator(self.P, fi, mode=self.mode, oracle=self.oracle, inline=self.inline,
                        max_paths=self.max_paths, inline_depth=self.inline_depth, fork_asserts=self.fork_asserts)
        sub._frames = self._frames + [fi.qualname]
        sub._parent_eval = self
        sub._loop_ids = self._loop_ids
        sub._try_ids = self._try_ids
        sub._depth = self._depth
        for i, p in enumerate(params):
            if i < len(args):
                env[p] = args[i]
            elif p in kws:
                env[p] = kws.pop(p)
            elif p in defaults:
                env[p] = self._const_default(defaults[p])
            else:
                env[p] = ('unknown', 'missing-arg:' + p)
        extra = args[len(params):]
        if fi.vararg:
            env[fi.vararg] = ('tuple', tuple(extra))
        for p in fi.kwonly:
            if p in kws:
                env[p] = kws.pop(p)
            elif p in defaults:
                env[p] = self._const_default(defaults[p])
        if fi.kwarg:
            if passthrough is not None:
                t = passthrough
                for k, v in kws.items():
                    t = ('setitem', t, const(k), v)
                env[fi.kwarg] = t
            else:
                env[fi.kwarg] = ('dict', tuple((const(k), v) for k, v in kws.items()))
        saved_env = st.env
        # closures: local functions see the caller's locals
        if f[0] == 'localfn':
            root = self
            while getattr(root, '_parent_eval', None) is not None:
                root = root._parent_eval
            defined_in = getattr(root, '_closures', {}).get(f[1])
            e2 = dict(defined_in if defined_in is not None else saved_env)
            e2.update(env)
            env = e2
        st.env = env
        base_events = len(st.events)
        entry_guards = tuple(st.guards)
        nguards = len(entry_guards)
        nloops = len(st.loops)
        self.emit(st, 'enter', call, fi.qualname, node=node)
        outs = sub.exec_block(fi.node.body, st)
        results = []
        for status, s in outs:
            results.append((T.CONST_NONE, s))
        for p in sub.paths:
            if p.kind == 'return':
                results.append((p.value, p.state))
            else:
                self._sink(Path('raise', p.value, p.state, p.node, from_inline=True))
        self._nforks += sub._nforks
        self._check_budget()
        if self.mode == 'join' and len(results) > 1:
            base = 0
            ordered = results[len(outs):] + results[:len(outs)]          # (program order: falling off the end comes last)
            vals = self._decision_value([(tuple(s_.guards[nguards:]), r) for r, s_ in ordered]) \
                if all(tuple(s_.guards[:nguards]) == entry_guards and not s_.loops[nloops:] for _, s_ in results) else None
            if vals is None:
                vals = mkphi([r for r, _ in results])
                if vals[0] == 'phi':
                    self._phi_merges = getattr(self, '_phi_merges', 0) + 1
            s = self.merge([s for _, s in results], base_events)
            results = [(vals, s)]
        for r, s in results:
            stored = s.env.get('__st__')
            s.env = dict(saved_env)
            if stored:
                # attribute stores made by the callee (on objects the caller knows: parameters) count for the caller's stale-alias bookkeeping
                merged = dict(s.env.get('__st__', {}))
                for key, t_ in stored.items():
                    merged[key] = max(t_, merged.get(key, -1))
                s.env['__st__'] = merged
            self.emit(s, 'leave', call, fi.qualname, node=node)
        return results

    @staticmethod
    def _decision_value(items):
        """value of a helper with several returning paths as a conditional expression over the tests that separate the paths: `if c: return a` / `return b`
        is `a if c else b` (None when the paths are not separated by a decision tree of their guards)"""
        vals = []
        for _, v in items:
            if v not in vals:
                vals.append(v)
        if len(vals) == 1:
            return vals[0]
        if any(not g for g, _ in items):
            # an early-return chain: `if c1: return v1` ... `return vn` - every path but the last one returns under its own tests, the last one is what is left
            if all(g for g, _ in items[:-1]) and not items[-1][0]:
                val = items[-1][1]
                for g, v in reversed(items[:-1]):
                    lits = tuple(a if pol else ('unop', 'not', a) for a, pol in g)
                    if len(lits) == 1 and g[0][1]:
                        val = ('ifexp', lits[0], v, val)
                    elif len(lits) == 1:
                        val = ('ifexp', g[0][0], val, v)
                    else:
                        val = ('ifexp', ('boolop', 'and', lits), v, val)
                return val
            return None
        atom = items[0][0][0][0]
        if any(g[0][0] != atom for g, _ in items):
            return None
        yes = [(g[1:], v) for g, v in items if g[0][1] is True]
        no = [(g[1:], v) for g, v in items if g[0][1] is False]
        if not yes or not no:
            return Evaluator._decision_value(yes or no)
        a, b = Evaluator._decision_value(yes), Evaluator._decision_value(no)
        if a is None or b is None:
            return None
        return ('ifexp', atom, a, b)

    def _const_default(self, node):
        try:
            return const(ast.literal_eval(node))
        except Exception:
            pass
        if isinstance(node, ast.Attribute) or isinstance(node, ast.Name):
            e = Evaluator(self.P, self.fi)
            return e.ev(node, State())[0][0]
        return ('unknown', 'default')

    @staticmethod
    def _is_module_attr(f):
        return f[1][0] == 'name' and f[1][1] in ('np', 'da', '_transform', '_reshape', '_align', '_operation',
                                                 'missingvalues', 'copy', 'warnings', 'ncio', 'json')

    @staticmethod
    def _is_method_style(fi, f):
        return True


def subst_bv(t, depth, args):
    if not isinstance(t, tuple) or not t:
        return t
    if t[0] == 'bv' and t[1] == depth:
        return args[t[2]]
    if t[0] == 'const':
        return t
    return tuple(subst_bv(x, depth, args) if isinstance(x, tuple) else x for x in t)


def evaluate(program, fi, **kw):
    if isinstance(fi, str):
        fi = program.func(fi)
    ev = Evaluator(program, fi, **kw)
    ev.run()
    return ev
