"""Provenance terms (Herbrand terms) and helpers.

A term is a nested tuple whose first element is a tag:

  ('const', v)                      literal
  ('param', name)                   function parameter (of the analysed entry function)
  ('name', id)                      global / builtin name
  ('attr', obj, name)
  ('sub', obj, index)
  ('slice', lo, hi, step)
  ('call', func, args, kwargs)      args: tuple of terms (('star', t) for *t)
                                    kwargs: tuple of (key, term), key '**' for **t
  ('binop', op, l, r) ('unop', op, x) ('cmp', op, l, r) ('boolop', op, items) ('ifexp', c, a, b)
  ('tuple', items) ('list', items) ('set', items) ('dict', ((k, v), ...))
  ('comp', kind, elt, gens)         gens: ((target_bvs, iter, conds), ...)
  ('bv', depth, i)                  variable bound by a comprehension / lambda
  ('elem', iter, loopid)            loop variable of `for x in iter`
  ('item', t, i)                    i-th component of an unpacked value
  ('phi', items)                    join of alternatives
  ('setitem', container, key, v)    container after `container[key] = v`
  ('mut', container, method, args)  container after container.method(*args)
  ('lambda', nparams, body)
  ('localfn', qualname)
  ('exc', name)                     bound exception in handler
  ('unknown', tag)

Terms are insensitive to local variable names and to the order of independent
statements, which is what makes rules robust against refactoring.
"""

CONST_NONE = ('const', None)
CONST_TRUE = ('const', True)
CONST_FALSE = ('const', False)


def const(v):
    return ('const', v)


def sym_key(t):
    """ordering key of the operands of a symmetric comparison: constants last, otherwise by structure"""
    return (t[0] == 'const', repr(t))


def mkcmp(op, a, b):
    """canonical comparison term: `>`/`>=` are written as `<`/`<=` with swapped operands, and the operands of the symmetric
    operators (== != is is-not) are ordered by sym_key - so `a != b` and `b != a` are the same term"""
    if op == '>':
        op, a, b = '<', b, a
    elif op == '>=':
        op, a, b = '<=', b, a
    if op in ('==', '!=', 'is', 'is not') and sym_key(a) > sym_key(b):
        a, b = b, a
    return ('cmp', op, a, b)


def is_const(t, v=None, anyval=False):
    if not (isinstance(t, tuple) and t and t[0] == 'const'):
        return False
    if anyval:
        return True
    return t[1] == v and type(t[1]) is type(v)


def subterms(t):
    """Pre-order traversal of all sub-terms (including t)."""
    stack = [t]
    while stack:
        x = stack.pop()
        if isinstance(x, tuple):
            if x and isinstance(x[0], str) and x[0] in _TAGS:
                yield x
                if x[0] == 'const':
                    continue
                stack.extend(reversed(x[1:]))
            else:
                stack.extend(reversed(x))


_TAGS = {'const', 'param', 'name', 'attr', 'sub', 'slice', 'call', 'binop', 'unop', 'cmp', 'boolop',
         'ifexp', 'tuple', 'list', 'set', 'dict', 'comp', 'bv', 'elem', 'item', 'phi', 'setitem',
         'mut', 'lambda', 'localfn', 'exc', 'unknown', 'star', 'fstr', 'yield', 'truth', 'not', 'idx', 'tryfail', 'carried', 'partial'}


def contains(t, sub):
    for x in subterms(t):
        if x == sub:
            return True
    return False


def replace(t, old, new):
    """t with every occurrence of the sub-term `old` replaced by `new`"""
    if t == old:
        return new
    if isinstance(t, tuple):
        if t and isinstance(t[0], str) and t[0] == 'const':
            return t
        return tuple(replace(x, old, new) if isinstance(x, tuple) else x for x in t)
    return t


def dotted(t):
    """'np.searchsorted' for ('attr', ('name','np'), 'searchsorted'); None otherwise."""
    parts = []
    while isinstance(t, tuple) and t and t[0] == 'attr':
        parts.append(t[2])
        t = t[1]
    if isinstance(t, tuple) and t and t[0] == 'name':
        parts.append(t[1])
        return '.'.join(reversed(parts))
    return None


def call_name(t):
    """Last component of the callee of a call term: 'searchsorted', 'take', ..."""
    if not (isinstance(t, tuple) and t and t[0] == 'call'):
        return None
    f = t[1]
    if f[0] == 'attr':
        return f[2]
    if f[0] == 'name':
        return f[1]
    if f[0] == 'localfn':
        return f[1].rsplit('.', 1)[-1]
    return None


def call_receiver(t):
    f = t[1]
    if f[0] == 'attr':
        return f[1]
    return None


def calls_in(t, name=None):
    for x in subterms(t):
        if x[0] == 'call' and (name is None or call_name(x) == name):
            yield x


def kw(t, key, default=None):
    """Keyword argument of a call term (looks through **{setitem chains} / dict literals)."""
    for k, v in t[3]:
        if k == key:
            return v
    for k, v in t[3]:
        if k == '**':
            r = container_lookup(v, const(key))
            if r is not None:
                return r
    return default


def arg(t, i, key=None, default=None):
    """i-th positional argument, or keyword `key`."""
    args = t[2]
    if i is not None and i < len(args) and not any(a[0] == 'star' for a in args[:i + 1]):
        return args[i]
    if key is not None:
        return kw(t, key, default)
    return default


def container_lookup(c, key):
    """Value stored under `key` in a container term built by setitem chains / dict literals /
    dict(...) calls. None if unknown."""
    while True:
        if c[0] == 'setitem':
            if c[2] == key:
                return c[3]
            c = c[1]
            continue
        if c[0] == 'dict':
            for k, v in c[1]:
                if k == key:
                    return v
            return None
        if c[0] == 'call' and dotted(c[1]) == 'dict' and not c[2]:
            for k, v in c[3]:
                if ('const', k) == key:
                    return v
            return None
        if c[0] == 'mut':
            c = c[1]
            continue
        return None


def strip_phi(t):
    """Alternatives of a phi (a single-element list for other terms)."""
    if t[0] == 'phi':
        out = []
        for x in t[1]:
            out.extend(strip_phi(x))
        return out
    return [t]


def value_alts(t):
    """the values a term may stand for: alternatives of a phi and both branches of a conditional expression, recursively"""
    if t[0] == 'phi':
        out = []
        for x in t[1]:
            for y in value_alts(x):
                if y not in out:
                    out.append(y)
        return out
    if t[0] == 'ifexp':
        out = []
        for x in t[2:4]:
            for y in value_alts(x):
                if y not in out:
                    out.append(y)
        return out
    return [t]


def mkphi(items):
    flat = []
    for x in items:
        for y in strip_phi(x):
            if y not in flat:
                flat.append(y)
    if len(flat) == 1:
        return flat[0]
    return ('phi', tuple(sorted(flat, key=repr)))


def roots(t):
    """Leaf params / names a term is built from."""
    out = set()
    for x in subterms(t):
        if x[0] in ('param', 'name'):
            out.add(x)
    return out


def derives_from(t, leaf):
    return leaf in roots(t)


def show(t, depth=0):
    """Compact human-readable rendering for reports."""
    if not isinstance(t, tuple) or not t:
        return repr(t)
    tag = t[0]
    if depth > 12:
        return '...'
    d = depth + 1
    if tag == 'const':
        return repr(t[1])
    if tag == 'param':
        return t[1]
    if tag == 'name':
        return t[1]
    if tag == 'attr':
        return show(t[1], d) + '.' + t[2]
    if tag == 'sub':
        return '%s[%s]' % (show(t[1], d), show(t[2], d))
    if tag == 'slice':
        return '%s:%s:%s' % tuple('' if is_const(x, None) else show(x, d) for x in t[1:4])
    if tag == 'call':
        a = [show(x, d) for x in t[2]] + ['%s=%s' % (k, show(v, d)) for k, v in t[3]]
        return '%s(%s)' % (show(t[1], d), ', '.join(a))
    if tag == 'star':
        return '*' + show(t[1], d)
    if tag == 'binop':
        return '(%s %s %s)' % (show(t[2], d), t[1], show(t[3], d))
    if tag == 'unop':
        return '(%s %s)' % (t[1], show(t[2], d))
    if tag == 'cmp':
        return '(%s %s %s)' % (show(t[2], d), t[1], show(t[3], d))
    if tag == 'boolop':
        return '(' + (' %s ' % t[1]).join(show(x, d) for x in t[2]) + ')'
    if tag == 'ifexp':
        return '(%s if %s else %s)' % (show(t[2], d), show(t[1], d), show(t[3], d))
    if tag in ('tuple', 'list', 'set'):
        o, c = {'tuple': '()', 'list': '[]', 'set': '{}'}[tag]
        return o + ', '.join(show(x, d) for x in t[1]) + c
    if tag == 'dict':
        return '{' + ', '.join('%s: %s' % (show(k, d), show(v, d)) for k, v in t[1]) + '}'
    if tag == 'comp':
        g = ' '.join('for %s in %s%s' % (','.join(show(b, d) for b in tg), show(it, d),
                                          ''.join(' if ' + show(c, d) for c in cs)) for tg, it, cs in t[3])
        return '<%s %s %s>' % (t[1], show(t[2], d), g)
    if tag == 'bv':
        return '$%d_%d' % (t[1], t[2])
    if tag == 'elem':
        return 'each(%s)' % show(t[1], d)
    if tag == 'carried':
        return '<carried#%d>' % t[2]
    if tag == 'idx':
        return 'index(%s)' % show(t[1], d)
    if tag == 'item':
        return '%s#%d' % (show(t[1], d), t[2])
    if tag == 'phi':
        return 'phi(' + ' | '.join(show(x, d) for x in t[1]) + ')'
    if tag == 'setitem':
        return '%s{[%s]=%s}' % (show(t[1], d), show(t[2], d), show(t[3], d))
    if tag == 'mut':
        return '%s{.%s(%s)}' % (show(t[1], d), t[2], ', '.join(show(x, d) for x in t[3]))
    if tag == 'partial':
        return 'partial(%s, %s)' % (show(t[1], d), ', '.join([show(x, d) for x in t[2]] + ['%s=%s' % (k, show(v, d)) for k, v in t[3]]))
    if tag == 'lambda':
        return 'lambda/%d: %s' % (t[1], show(t[2], d))
    if tag == 'truth':
        return 'bool(%s)' % show(t[1], d)
    if tag == 'not':
        return 'not ' + show(t[1], d)
    return '<%s>' % ' '.join(str(x) if not isinstance(x, tuple) else show(x, d) for x in t)


# ----------------------------------------------------------------------------
# affine normal form over integer-valued terms:  sum(coef * atom) + const
# ----------------------------------------------------------------------------

def affine(t):
    """Return (dict atom->coef, const) or None if t is not affine in opaque atoms.
    bool-valued sub-terms (boolop/cmp) are atoms; True counts as 1 when multiplied."""
    tag = t[0]
    if tag == 'const':
        v = t[1]
        if isinstance(v, bool):
            return {}, int(v)
        if isinstance(v, (int, float)):
            return {}, v
        return None
    if tag == 'unop' and t[1] == '-':
        a = affine(t[2])
        if a is None:
            return None
        return {k: -c for k, c in a[0].items()}, -a[1]
    if tag == 'unop' and t[1] == '+':
        return affine(t[2])
    if tag == 'binop' and t[1] in ('+', '-'):
        a, b = affine(t[2]), affine(t[3])
        if a is None or b is None:
            return None
        s = 1 if t[1] == '+' else -1
        d = dict(a[0])
        for k, c in b[0].items():
            d[k] = d.get(k, 0) + s * c
        return {k: c for k, c in d.items() if c != 0}, a[1] + s * b[1]
    if tag == 'binop' and t[1] == '*':
        a, b = affine(t[2]), affine(t[3])
        if a is None or b is None:
            return None
        if not a[0]:
            a, b = b, a
        if b[0]:
            return {t: 1}, 0   # non linear: opaque atom
        k = b[1]
        return {x: c * k for x, c in a[0].items() if c * k != 0}, a[1] * k
    return {t: 1}, 0


def affine_eq(t1, t2):
    a, b = affine(t1), affine(t2)
    return a is not None and b is not None and a == b
