"""Static analysis engine for perrette/dimarray (stdlib `ast` only; nothing is imported or run)."""
