#!/venv/bin/python
"""regenerate sa/tables/known_functions.json from the current /repo (review the diff before committing)"""
import sys, json, os
sys.path.insert(0, os.path.dirname(os.path.dirname(os.path.abspath(__file__))))
from sa import loader
P = loader.load(sys.argv[1] if len(sys.argv) > 1 else '/repo')
p = os.path.join(os.path.dirname(os.path.dirname(os.path.abspath(__file__))), 'sa', 'tables', 'known_functions.json')
d = json.load(open(p))
d['functions'] = sorted(P.functions.keys())
d['signatures'] = {q: {'params': list(fi.params), 'kwonly': list(fi.kwonly), 'vararg': fi.vararg, 'kwarg': fi.kwarg} for q, fi in sorted(P.functions.items())}
d['globals'] = sorted('%s.%s' % (m.name, n) for m in P.modules.values() for n in m.assigns)
json.dump(d, open(p, 'w'), indent=0)
print(len(d['functions']), 'functions')
