# executed by gen_manifest.py; `claim` and NOT_APPLICABLE are in scope
claim('C02', 'finite decision-table analysis (path-sensitive value numbering over locate_slice) + bounded integer check of the affine bound terms',
      'Decides the structural clauses of C02: rule selection (strict vs bounding box), the full searchsorted side table for '
      '{increasing, decreasing} x {step None, >0, <0} x {start, stop}, the integer arithmetic around it including the '
      'no-wrap-around rule (checked for all axis lengths n <= 6 and all search results), the strict-rule stop correction, '
      'the slice plumbing in AbstractAxis.loc and the order predicates. Exhaustive over the finite atom space; it does not '
      'decide float rounding or NumPy itself.',
      'Assumes numpy.searchsorted documented side semantics and Python slice semantics.', 'DESIGN.md §3 C02')

claim('C01', 'program-model resolution of the accessor registry + path-sensitive value numbering with guard/provenance rules (absent-label guards, dispatch table, searchsorted preconditions, per-dimension bookkeeping)',
      'Decides structural clauses of C01: every accessor spelling reaches the single _getitem/_setitem pair with the indexing mode its name '
      'promises; an absent label can only leave locate_one / Axis.loc through IndexError (guard polarity and comparator checked on every path, '
      'tolerance test is dist > tol); the loc dispatch table sends each index kind to the routine the statement describes; searchsorted is only '
      'used on sorted input or through sorter=argsort mapped back; orthogonal indexing is the default pair; the i-th index is resolved on the '
      'i-th axis and scalar-indexed axes are dropped. Not the numerical result of argsort/searchsorted/np.ix_.',
      'Assumes numpy.where/argmin/argsort/searchsorted/take documented semantics.', 'DESIGN.md §3 C01')

claim('C03', 'path-sensitive value numbering of _setitem / _setvalues_* (receiver of every write, store ordering) + exhaustive decision table of _maybe_cast_type over 10x10 dtype kinds',
      'Decides structural clauses of C03: with inplace=False every write goes to a deep copy that is returned (and to the array itself, returning None, '
      'with inplace=True); the write path resolves indices with the same call and builds the same orthogonal indexer as the read path; with cast=True the '
      'dtype is widened before the cells are stored; the widening rules are loss-free for every (array kind, assigned kind) pair; the writers store into '
      '_values only. Not which cells NumPy writes for a fancy index.',
      'Assumes np.asarray(x, dtype=) preserves shape and values representable in the target kind.', 'DESIGN.md §3 C03')

claim('C04', 'registry/sibling check of the operator table + path-sensitive value numbering of operation() (pipeline order, name-based result axes) + NumPy stub resolution of reachable names',
      'Decides structural clauses of C04: each of + - * / // ** has forward and reflected special methods bound to the matching ufunc with operand order '
      'preserved; on the two-DimArray path with default options align (outer join over all dimensions) precedes align_dims precedes func applied to the '
      'aligned operands\' values in order; result axes are copies taken from the aligned first operand with singleton placeholders replaced from the '
      'second operand by name; scalar/ndarray short-cuts keep operand order and the DimArray\'s axes; defaults (outer join, op.reindex, op.broadcast) '
      'are as the statement assumes; every NumPy name reachable from operation() exists in the pinned NumPy. Not the per-coordinate numerical result.',
      'Assumes NumPy ufunc semantics and that the shipped stub files list the public NumPy names.', 'DESIGN.md §3 C04')

claim('C05', 'guard-dominates-exit analysis of the constructor, who-may-write scan against a frozen justified table, typestate of the monotonicity cache, totality of the axes dispatch, version-keyed NumPy API rules',
      'Decides structural clauses of C05: every normal exit of DimArray.__init__ passed the axes-sizes == values.shape test evaluated after the stores; '
      '._values/._axes/_name are written only at enumerated, individually justified sites and an array\'s axes list is never resized in place; the size '
      'guards of the axes setter / Axes.__setitem__ / Axis.values setter, the duplicate-name and non-empty-str-name guards and the 1-D guard dominate their '
      'stores; every label write is followed by a reset of the cached monotonicity flag on every path and only a cached True is inherited by slices; '
      '_init_axes is total; zeros/ones/nans fill what they promise; np.array(copy=False) is not used under NumPy >= 2. Equality of arrays built from '
      'different argument forms is not decided.',
      'Assumes list / ndarray builtin semantics and the documented NumPy 2 meaning of copy=False.', 'DESIGN.md §3 C05')

claim('C06', 'label-set region algebra over provenance terms (isin / mask / concatenate / union1d) + value numbering of the fold, the reindex loop and the ownership of the sorted axis',
      'Decides structural clauses of C06: on every returning path Axis.union yields each of the regions A-only, both, B-only exactly once and '
      'Axis.intersection yields the common labels once in the first axis\' stored order; _common_axis folds over all inputs with the right operation per join '
      'mode; align() reindexes exactly the arrays that have the dimension, on the common axis, from the current (not a stale) list element, in a private copy '
      'of the list; the axis sorted under sort=True is a fresh deep copy and is sorted ascending. Order of the union for mixed kinds and fill values are not decided.',
      'Assumes np.isin / np.union1d / np.concatenate documented semantics.', 'DESIGN.md §3 C06')

claim('C07', 'provenance-term coherence rules over reindex_axis / take_axis / reindex_like (one position vector, one mask, one axis token; index-kind typing; loop-carried accumulation)',
      'Decides structural clauses of C07: positions are located for the new labels in the labels of the reindexed axis; the same positions feed the positional take '
      'and the mismatch mask; the same mask and axis feed the fill (inplace on the fresh result, indexing=position, cast=True) and the relabelling through '
      'Axis.__setitem__; raise_error raises IndexError before any fill, fill happens only when method is None, side = method or left, defaults as stated; '
      'take_axis takes values and labels along one resolution; reindex_like accumulates over the shared dimensions with keywords forwarded. '
      'Slice-by-slice equality and searchsorted neighbour semantics are not decided.',
      'Assumes ndarray.take semantics and the locate_many contract checked under C01-R4.', 'DESIGN.md §3 C07')

claim('C08', 'dimension-identity coherence on provenance terms (reduce/drop), registry check of the _NumpyDesc descriptors, finite decision table of the NaN policy, metadata provenance',
      'Decides structural clauses of C08: _get_axis_info resolves names and positions consistently; in apply_along_axis the axis handed to NumPy and the name '
      'dropped from the result axes come from one resolution, the surviving axes are a by-name filter of the source axes (negative positions included) and the '
      'metadata is passed on; every reduction descriptor is bound to its own NumPy name; _deal_with_axis groups a tuple of dimensions at the position it reduces; '
      'skipna selects only NaN-ignoring / only NaN-propagating callables, masked results are filled with NaN, median propagates NaN; percentile reduces along the '
      'resolved position, drops that axis by name, labels the new axis by pct and carries the metadata. Numerical equality with NumPy is not decided.',
      'Assumes NumPy reduction semantics along axis= and numpy.ma mask semantics.', 'DESIGN.md §3 C08')

claim('C09', 'finite decision table of diff (scheme x keepaxis) over provenance terms, option plumbing of cumsum/cumprod, sibling agreement of argmin/argmax',
      'Decides structural clauses of C09: cumsum/cumprod default to the last axis, bind their own name and keep all axes; for every scheme x keepaxis the '
      'differenced axis is sliced / kept and the NaN padding placed on the side the statement says, np.diff and the replaced axis share one resolution, the '
      'midpoints are 0.5*(v[:-1]+v[1:]), invalid combinations raise ValueError, the recursion on n forwards axis, scheme and keepaxis with n-1; argmin and '
      'argmax are the same algorithm up to the function name and map positions to the labels of the reduced axis through the values setter (flattened case: '
      'unravel on obj.shape, i-th index with i-th axis). NumPy argmin tie/NaN behaviour is not decided.',
      'Assumes np.diff / np.concatenate / np.unravel_index semantics.', 'DESIGN.md §3 C09')

claim('C10', 'dimension-identity coherence on provenance terms (same permutation / position term on the values side and on the axes side), guard-dominates-action, sibling-by-name check of NumPy delegates',
      'Decides structural clauses of C10: transpose permutes values and axes with the same position list obtained from _get_axes_info; swapaxes exchanges the two '
      'resolved positions in the identity; rollaxis uses numpy.rollaxis semantics on the resolved position; newaxis inserts the singleton at the same position on '
      'both sides under a fresh name; squeeze removes only size-1 axes, the same one on both sides; repeat repeats and relabels the same singleton position; '
      'broadcast reshapes order-sensitively then repeats singleton axes by name; broadcast_arrays chains align_dims, the by-name alignment check and broadcast; '
      'metadata is carried and no rearranging function rebuilds axes from labels. Element-wise equality and composition laws are not decided.',
      'Assumes ndarray.transpose / repeat / squeeze and np.rollaxis documented semantics.', 'DESIGN.md §3 C10')

claim('C11', 'order-constant agreement + guard-dominates-action + recursion-progress rule on affine terms + splice coherence + freshness of renamed axes',
      'Decides structural clauses of C11: labels are enumerated with meshgrid ij and C-order ravel while values are regrouped by a C-order reshape; the reshape in '
      'flatten is reached only after the contiguity test dims == self.dims[insert:insert+n]; the recursive call uses an insertion point clamped to ndim - n '
      '(progress); the grouped axis is made of the member axes in array order and inserted where the guard looked; unflatten splices shape and axes at the same '
      'index with the same members and accumulates over grouped axes; reshape applies squeeze(dim), newaxis(dim, pos=i), flatten(group, insert=i) in pipeline order '
      'and renames private copies of the axes only. The value at each grouped position follows from NumPy C-order semantics (trusted).',
      'Assumes ndarray.reshape C order and np.meshgrid(indexing=ij)+ravel row-major enumeration.', 'DESIGN.md §3 C11')

claim('C12', 'companion/guard analysis of the positional joins (the safeguard runs on the joined list, values and labels come from the same name-normalised list), decision table of concatenate, input-form table, reference-update rule of _get_axes',
      'Decides structural clauses of C12: in stack the alignment check _get_axes runs on exactly the list whose values are joined and its ValueError is re-raised; '
      '_get_axes compares non-singleton axes label-wise by name and replaces its reference only while it is missing or a singleton; the list joined positionally by '
      'np.array / np.concatenate has been transposed by name to the first array\'s dimension order and is the list the labels and secondary axes are taken from; new '
      'axis / concatenated axis sit at the same position on the values and the axes side; the (align, _no_check) table of concatenate and who may pass _no_check; '
      'new-axis name guards; list, tuple and dict input forms are accepted. Slice-by-slice equality with the inputs is not decided.',
      'Assumes np.array(list) stacks along a new first axis and np.concatenate semantics.', 'DESIGN.md §3 C12')

claim('C13', 'who-may-write scan of the dict level + path/loop analysis of Dataset.__setitem__ (must-alias of stored axes, validate-before-mutate across loop iterations, clean-up pairing) + read-before-replace ordering in DatasetAxes.__setitem__',
      'Decides structural clauses of C13: only __setitem__, __delitem__ and rename_keys touch the dict level; the stored array is a private shell with a deep-copied axes '
      'container whose every axis is replaced by the dataset\'s own Axis object of that name or appended to the dataset; no loop both mutates the dataset and raises for '
      'a mismatch; obsolete axes are cleaned up after the store / delete and decided per axis; replacing a dataset axis remembers the old name first and hands the new '
      'Axis object to every variable having it; dims setter / set_axis / rename_axes write through the shared Axis object, rename_keys moves the stored object; the '
      'constructor inserts aligned arrays. The equality used to compare axes is not judged.',
      'Assumes copy.copy / copy.deepcopy and list method semantics.', 'DESIGN.md §3 C13')

claim('C14', 'registry/sibling checks of the delegations, deviance rule over the per-variable loops, index-kind typing, metadata provenance, twin comparison with DimArray.reindex_axis',
      'Decides structural clauses of C14: the reductions pass their own name and run only on variables having the axis; take_axis / sort_axis / interp_axis go through '
      'reduce_axis with the same primitive as the DimArray twin, which transforms each variable along the variable\'s own position of the dimension, keeps variables '
      'lacking it, and carries the requested axis; positions resolved on the dataset axes are handed to variables with indexing=position, labels with indexing=label; '
      'arithmetic passes the caller\'s operand to the per-variable operation unchanged; stack_ds / concatenate_ds call the array functions per variable; take, take_axis, '
      'sort_axis, reindex_axis and interp_axis carry dataset attrs; Dataset.reindex_axis mirrors DimArray.reindex_axis (mask, relabel, guarded per-variable fill with '
      'cast=True). Value equality with per-variable results is not decided.',
      'Assumes np.take semantics; Dataset.__setitem__ re-establishes shared axes (C13).', 'DESIGN.md §3 C14')

claim('C15', 'interprocedural may-mutate / may-alias effect analysis (alias sets with field sensitivity, option specialisation, fixpoint over call-graph cycles, frozen NumPy/builtin effect tables)',
      'Decides the ownership clause of C15 for all call chains at once: for every public non-in-place operation of DimArray, Dataset, Axis, Axes and the exported functions '
      '(about 180 operation x option specialisations, inplace=False forced where the option exists) the summary of parameters that may be written - directly or through any '
      'callee - is empty; DimArray.copy() / Axis.copy() / Axes.copy() are deep copies aliasing nothing; Dataset.__setitem__ stores a private shell with deep-copied axes; the '
      'in-place fill of Dataset.reindex_axis is guarded so that only fresh variables are written. A violation prints the call chain down to the primitive write. '
      'Writes hidden in user-supplied callables and sharing of mutable metadata values are not decided.',
      'Assumes the frozen effect tables of sa/effects.py (which builtin / NumPy calls write in place, return views or copies) and that unknown callables do not write their arguments.', 'DESIGN.md §3 C15')

claim('C16', 'exhaustive finite decision tables of the attribute routing (2^6 atoms x 3 methods x 3 classes) + metadata provenance (must / may) over every DimArray-typed return of the listed operations',
      'Decides C16 almost completely at the structural level: reading, assigning and deleting an attribute is routed to attrs / axis labels / plain attribute / AttributeError '
      'exactly as the statement dictates for every combination of (underscore, excluded, included, class member, dimension, key of attrs) on DimArray, Dataset and Axis; '
      'the attrs setter replaces, the deleter clears, constructors store a fresh dict; every propagating operation returns an array that carries the source metadata on all '
      'paths and metadata never travels through the argument channel of __init__; arithmetic, comparisons, stack and concatenate build results without operand metadata; '
      'Axis slicing/take/cast/union keep axis metadata. The semantics of dict.update is trusted.',
      'Assumes dict.update semantics and that hasattr(cls, name) defines class membership.', 'DESIGN.md §3 C16')

claim('C17', 'provenance / index-kind rules (single-exit, one axis token, POSITION kind), affine normal form and comparator of the dropna threshold, option plumbing',
      'Decides structural clauses of C17: every exit of sort_axis applies the argsort of the labels of the resolved axis (or of key(label)) positionally along that axis; '
      'compress_axis / take_axis select values and labels with the same index along one resolution; dropna counts NaNs along the grouped axis k, reads the slice size from '
      'the same k, keeps count <= size - minvalid, recognises the default by `is None`, and uses the negated NaN mask for 1-D arrays; fillna / setna put the right mask and '
      'replacement with cast=True and inplace=False by default; _matches is total. Which labels survive for a given NaN pattern is not decided.',
      'Assumes ndarray.argsort / compress / take semantics.', 'DESIGN.md §3 C17')

claim('C18', 'guard-form / provenance / option-plumbing rules and bounded integer check of the out-of-range markers (thin structural clauses)',
      'Decides thin structural clauses of C18: numpy.interp only sees labels of an object that was sorted unless all(v[1:] >= v[:-1]); the interpolated position and the '
      'relabelled axis come from one resolution, other axes are copied, metadata carried, swapaxes undone; left / right reach the 1-D and the N-d variant (default NaN); '
      'the out-of-range masks are exact and disjoint for every axis length (coordinate comparison, fills valid positions); the weight formula is vleft + frac*(vright - vleft) '
      'with lhs = int(idx), rhs = ceil(idx); interp_like accumulates by name; Dataset.interp_axis passes the requested axis. Numerical agreement with numpy.interp is not decided.',
      'Assumes numpy.interp semantics for increasing nodes.', 'DESIGN.md §3 C18')

claim('C19', 'writer/reader table agreement (JSON), metadata-channel rule, interprocedural effect analysis of the writers, symmetric-update rule for the three metadata levels',
      'Decides only the clauses of C19 that are visible in the code: the JSON writer and reader agree key by key and role by role, metadata values are read from the attrs '
      'dictionary into a fresh dict and restored after construction (never through constructor keywords), the reader path is valid under the pinned NumPy; to_json, '
      'to_jsondict, DimArray.write_nc and Dataset.write_nc mutate none of their operands; dataset, variable and axis metadata each have a write-side and a read-side '
      'attrs.update in io/nc.py. NOT decided: everything that depends on the netCDF4 library (absent from the sandbox) - dtype mapping, string encoding, mode=a, NETCDF3 '
      'down-casting, dimension order on disk.',
      'Assumes json.dumps/loads and ndarray.tolist semantics; netCDF4 calls are external and assumed not to write their Python arguments.', 'DESIGN.md §3 C19')

UNDER_CONSTRUCTION = 'checker under construction in this session (claimed in DESIGN.md, not yet registered)'
for pid in ['C01', 'C03', 'C04', 'C05', 'C06', 'C07', 'C08', 'C09', 'C10', 'C11', 'C12', 'C13', 'C14', 'C15', 'C16',
            'C17', 'C18', 'C19']:
    if pid not in CLAIMS:
        NOT_APPLICABLE[pid] = UNDER_CONSTRUCTION
NOT_APPLICABLE['C20'] = ('equivalence with netCDF4.Variable indexing/assignment: the netCDF4 library is absent from the '
                         'sandbox (no source, stubs or types to analyse) and the property is a runtime value equality; no '
                         'sound static argument is in reach. Structural facts about the on-disk classes are checked under '
                         'C01/C12/C14 instead.')


# --- rules added after the second round of seeded changes (appended to the level text by gen_manifest) ---------------------------------
ADDENDA.update({
 'C01': 'Also: provenance of every issorted= claim (caller option or increasing-order test); empty list indices re-typed to int before positional use. Kind-level abstract interpretation of orthogonal_indexer over every key pattern of length <= 4 and of expanded_indexer over every Ellipsis placement; '
        'the (indices, axis=k) rewriting of _get_indices over a table of axis values (None, 0, positive, negative, name); the option-plumbing table (RF).',
 'C02': 'Also: strict-rule stop never becomes the wrap-around position -1 (checked over all positions and step values); orthogonal_indexer rule shared with C01; option-plumbing table (RF).',
 'C03': 'Also: the (indices, axis) form, the orthogonal conversion (shared with C01) and the values setter (stores the widened buffer it writes into); option-plumbing table (RF).',
 'C04': 'Also: align_dims returns its inputs untouched only when the ordered dims coincide; the kind reconciliation ahead of the label merge (common-kind table, full-width cast) shared with C06.',
 'C05': 'Also: an Axes list grows only through the checked Axes.append (no extend / += / raw list primitives); the label-list constructor form is recognised by element type (empty lists included).',
 'C06': 'Also: direction of the common axis for lists of inputs (union table composed over the fold; the known finding); Axis.__eq__ exact; placeholder-only skipping in the fold; _check_axes_merge casts with a full-width dtype and only when kinds differ; _get_cast_kind table; direction of the sorted union for every pair of operand directions '
        '(increasing / decreasing / single label); first / last labels are read only under a size guard; Dataset.reindex_axis cross-checked against DimArray.reindex_axis. '
        'One known finding (fold direction with two single-label inputs after a decreasing one); reindexing an empty source axis is handled (repaired).',
 'C07': 'Also: the locate_many contract (searchsorted over argsort, mapped back, past-the-end clipped) and the (indices, axis) form of _get_indices, shared with C01.',
 'C08': 'Also: scalar-vs-array dispatch of reduction results uses dimensionality, never size == 1; flatten rules shared with C11.',
 'C09': 'Also: the values setter used by argmin / argmax, apply_along_axis coherence (shared with C08), _deal_with_axis and flatten (shared).',
 'C10': 'Also: newaxis / swapaxes decided for every rank 0-4 and every position incl. negative ones (bounded check); broadcast relabels the None placeholder of an inserted dimension also for single-label targets; the reshape pipeline (shared with C11); metadata provenance of transpose / swapaxes / rollaxis / newaxis / squeeze / repeat / broadcast / reshape (rule shared with C16).',
 'C11': 'Also: _deal_with_axis groups a tuple of dimensions in the listed order (shared with C08).',
 'C12': 'Also: stack compares singleton axes too; the concatenation position is normalised; joined labels keep NumPy\'s common type; for dict input the i-th array is the one stored under the i-th key; the align() reindex loop and the kind reconciliation used with align=True (shared with C06).',
 'C14': 'Also: reflected arithmetic per variable; concatenate_ds by dimension name with has-dimension guard; axis metadata through reduce_axis; interpolation weights (shared with C18); Dataset.reindex_axis as a sibling cross-check (same lookup call as DimArray.reindex_axis, per-variable fill addressed by dimension name); option-plumbing table (RF).',
 'C15': 'Also: constructors (DimArray, Dataset, Axis, Axes, MultiAxis, DatasetAxes) write into none of their arguments.',
 'C16': 'Also: the unary operator table (__neg__, __pos__, __invert__ are the metadata-free _unary_op over the NumPy function of the same name).',
 'C17': 'Also: is_boolean_array decision table (ndarray or DimArray of bool dtype, nothing else); flatten rules shared with C11; option-plumbing table (RF).',
 'C13': 'Also: Axis.__eq__ (the label comparison behind rejected assignments) is exact; bulk renames (rename_axes, dims setter of variables) fetch every Axis before renaming any; '
        'ds.axes[key] = Axis resolves the position before the replacement; the align() reindex loop used by Dataset construction.',
 'C18': 'Also: integer fibres are promoted to float before the difference; interp_like skips a shared dimension only on exact label equality.',
 'C19': 'Also: the reader uses the written shape (nested lists lose it for empty dimensions), does not consume its input dict, and the constructor takes label lists of any length.',
})


# --- rules added in rounds 3-4 (appended) -------------------------------------------------------------------------------------------------
for _pid, _extra in {
 'C01': 'Round 4: .ix as a scenario table over (own mode, indexing.by); the tolerance path returns integer positions also when empty, refuses an empty axis with IndexError, and a TypeError of the sorted search becomes IndexError; an unconverted array index counts as advanced in the orthogonal_indexer table.',
 'C03': 'Round 4: the per-dimension bookkeeping of _get_indices (shared with C01).',
 'C04': 'Round 4: first-label reads of operation() under a size guard; NumPy scalars on the left defer to the reflected operators (__array_priority__ / __array_ufunc__); result axes either by the own-axis / placeholder loop or as copies of _get_axes (choice table shared with C10); sharing an Axis object with an operand is not required or forbidden.',
 'C05': 'Round 4: Axes.from_shape compares the number of names with the number of dimensions; is_array1d_equiv reads the first element only when there is one (short-circuit aware); the JSON reader lays values out by the recorded shape (shared with C19).',
 'C06': 'Round 4: ordered-ness predicates (shared with C02); Dataset.reduce_axis rebuilds variables with their axes in their own dimension order (shared with C14).',
 'C07': 'Round 4: Dataset.reduce_axis per-variable position and axis order (shared with C14).',
 'C08': 'Round 4: _median_with_nan path-wise (NaN test along the axis of the median, for axis in 0, 1, 2, -1, None); masked results as a scenario table over (function name, dtype kind of the masked result) incl. the float64 scalar constant np.ma.masked; percentile resolves its axis through _deal_with_axis (tuples).',
 'C10': 'Round 4: broadcast repeat decision table over (own size 1, target size 1, placeholder); _get_axes common-axis choice table (placeholder gives way to any real axis, one label to several).',
 'C11': 'Round 4: insertion point for negative positions (counted from the end of the remaining dimensions, never looping); the label table of a group is only built from a non-empty list of combinations.',
 'C12': 'Round 4: bounded check of the normalised concatenation position for 1-4 dimensions; transpose permutation and the common-axis fold (shared with C10 / C06).',
 'C13': 'Round 4: the message of the rejecting ValueError (str of an Axis) reads end labels only under a size guard; rename_keys(inplace=False) touches only the returned copy.',
 'C14': 'Round 4: rebuilt variables list their axes in their own dimension order; _get_indices bookkeeping (shared with C01).',
 'C16': 'Round 4: take(broadcast=True) takes a single array-indexed axis from the Axis object (metadata kept); Dataset.reindex_axis relabels the existing axis (shared with C14).',
 'C17': 'Round 4: the put writers store the widened array they write into (shared with C03).',
}.items():
    ADDENDA[_pid] = (ADDENDA.get(_pid, '') + ' ' + _extra).strip()


# --- rounds 5-6 (robustness against behaviour-preserving refactorings) and rule changes made there ------------------------------------------------
for _pid, _extra in {
 'C05': 'Round 6: the constructor check may compare the local objects that are stored (self._values = values); who-may-write scan follows helper parameters that are only ever handed the Dataset; '
        'the JSON writer guards its json.dumps probe entry by entry (a try around the whole loop drops the entries after the first failing one; shared with C19).',
 'C06': 'Round 6: the per-dimension collection is read in _get_aligned_axes or, when that helper was merged away, in align() itself.',
 'C08': 'Round 6: _deal_with_axis judged per kind of axis argument (tuple / list / int / str scenarios); an unclassifiable _get_func result or fill value is ANALYSIS-ERROR, not a violation.',
 'C13': 'Round 6: dict-level writers are recognised through local aliases of super(Dataset, ds).',
 'C17': 'Round 6: _isnan decided per scenario of `na` (NaN -> np.isnan(a), otherwise a == na) whatever the spelling.',
 'C19': 'Round 6: the writer table follows aliases of the meta dictionary; the json.dumps probe must sit in a try inside the per-entry loop; a reader path without a meta entry may return early.',
}.items():
    ADDENDA[_pid] = (ADDENDA.get(_pid, '') + ' ' + _extra).strip()


# --- rounds 7-8: scenario tables decided by interpretation (rule RS and the numbered rules that use a table as their decision procedure), frozen defaults (RD) ----------
_RS = ('Scenario tables (RS): the function is interpreted - our own interpreter of the Python subset the library uses, on abstract arrays with symbolic values, label tokens '
       'and NumPy reduced to shape rules; the library is never imported or run - on each listed argument form, and the rendered outcome (axes, symbolic values, or the refusal) is '
       'compared with a frozen, reviewed table; refusals are compared modulo the exception type unless the property names it. The listed forms are the claim, not all inputs. ')
for _pid, _extra in {
 'C04': _RS + 'Tables: operation() (scalar / ndarray / array operands, placeholder and single-label dimensions, empty dimension, operands of different dimensions), transpose, broadcast, reshape; '
        'align() re-index step (R7) decided by interpretation on abstract arrays: every mismatching dimension of every array re-indexed on the common axis, options handed on, private result list. Frozen defaults of the entry points (RD).',
 'C05': _RS + 'Tables: DimArray.__init__ (every documented way of giving axes, mismatching sizes / counts / duplicate names refused), _init_axes, from_nested, is_array1d_equiv, Axis.set, set_axis, '
        'the dims setters of arrays and Datasets, stack. Axes methods are the repository\'s own (append with its duplicate test) in every scenario. Frozen defaults (RD).',
 'C06': _RS + 'Tables: _get_aligned_axes (what sort=True returns and what it leaves of the inputs\' own axes, a lone axis, an empty axis next to a full one, three inputs); align() re-index step (R3) by interpretation. '
        'Slice steps computed from the end labels are evaluated per ordering. Frozen defaults (RD).',
 'C07': 'reindex_like (R4) is decided by interpretation on an abstract array whose reindex_axis records dimension, labels and options (templates with the dimensions in other orders, subsets, an Axes object, equal labels in another order). '
        'A reindex pipeline that no longer goes through take_axis / put is answered ANALYSIS-ERROR. Frozen defaults (RD).',
 'C08': _RS + 'Table: flatten (shared with C11).',
 'C09': 'diff with the order handed to NumPy, argmin / argmax not through apply_along_axis are answered ANALYSIS-ERROR (forms the rules do not read). Frozen defaults (RD).',
 'C10': _RS + 'Tables: transpose, swapaxes, rollaxis (every start position), squeeze (NumPy\'s rule modelled on the shape), newaxis, repeat, broadcast, reshape; squeeze (R2) and rollaxis (R1) are decided by their tables. Frozen defaults (RD).',
 'C11': _RS + 'Tables: flatten (all subsets and orders of 1-d to 3-d arrays, insert=), unflatten, reshape (several groups, new and dropped dimensions), grouped labels (_flatten, MultiAxis) on small concrete label lists; '
        'a single-pass flatten and the grouping step of reshape are decided by the tables. Frozen defaults (RD).',
 'C12': _RS + 'Tables: stack, concatenate (permuted and rotated dimension orders, differing labels with and without align=True, dict / tuple inputs), stack_ds, concatenate_ds, _get_aligned_axes; '
        'the refusal of mismatching labels is compared with its exception type (ValueError). Frozen defaults (RD).',
 'C13': _RS + 'Tables: rename_keys, rename_axes, Axis.set, set_axis, the dims setters (what every variable sees afterwards); align() re-index step (R7) by interpretation. Frozen defaults (RD).',
 'C14': _RS + 'Tables: Dataset arithmetic (_binary_op / _rbinary_op / _unary_op: which variable meets which operand, differing labels, partly other keys; decides R1), _apply_dimarray_axis and the reductions built on it, stack_ds / concatenate_ds. '
        'The relabelling of positions that were not found must not depend on method=. Frozen defaults (RD).',
 'C15': _RS + 'Table: rename_keys (operand afterwards). The effect analysis resolves `self` in a method of an abstract base to the subclasses\' members and lets the class a method resolves to decide which copy() made its receiver.',
 'C16': 'cumsum / cumprod installed as descriptors are read like sum / mean (apply_along_axis carries the attrs). Frozen defaults (RD).',
 'C17': 'An argsort helper that sorts with sorted() in an arrangement the rule does not know is answered ANALYSIS-ERROR. Frozen defaults (RD).',
 'C18': 'The interpolated axis may be addressed by the caller\'s axis, its resolved position / name, or as the only axis of a 1-d array; floor / truncation / ceil casts in any equivalent spelling. Frozen defaults (RD).',
 'C19': 'The metadata may be copied and pruned (dict(attrs) then del) or built entry by entry; the stored shape may be skipped exactly when the values already have it; no test on the content of the nested lists may decide whether the shape is used.',
 'C01': 'The presence test of a label list in either spelling (any mismatch / all found). Frozen defaults (RD).',
 'C02': 'The direction of the axis may be asked through any of the ordered-ness predicates (is_monotonic_equal, is_increasing_equal / is_decreasing_equal, end-label comparisons): all are answered from the same scenario. Frozen defaults (RD).',
 'C03': 'A writer may store through a local name bound to the widened array in the same statement; a write through a name bound before the array was replaced is reported (stale alias).',
}.items():
    ADDENDA[_pid] = (ADDENDA.get(_pid, '') + ' ' + _extra).strip()


# --- round 11: index resolution and dispatch decided by interpretation ------------------------------------------------------------------------
for _pid, _extra in {
 'C01': _RS + 'Tables (round 11): _get_indices (every spelling of an index - scalar, list, mask, slice, tuple with Ellipsis, {name / position: index}, (index, axis=), None - to one positional index per '
        'dimension; labels looked up on the axis of the named dimension with the tolerance handed on; masks and full slices never looked up; positions kept under indexing=position; keepdims), '
        '_getitem dispatch (orthogonal workers unless broadcast is asked for by argument, then by the array flag, then by the option; N-d boolean mask to compress; scalar result as it is; metadata carried), '
        '_getaxes_ortho (scalar-indexed axes dropped, the others in order). The structural readings of _getitem (R5) and _getaxes_ortho (R6) run on trial: these tables decide when the code is written otherwise.',
 'C02': _RS + 'Tables (round 11): _locate_slice_strict on concrete labels (every start / stop / step combination: inclusive stop in the direction of the step, open bounds stay None, a negative step down to the '
        'first element ends with None, absent labels refused) - decides R4 when the structural reading does not recognise the code; _get_indices, _getitem, _getaxes_ortho (shared with C01).',
 'C03': _RS + 'Tables (round 11): _setitem dispatch (which worker receives which resolved index and cast flag; N-d boolean mask to _setvalues_bool; with inplace=False every write goes to a copy that is '
        'returned and the receiver gets none) - decides R1 / R2 when the structural reading does not recognise the code; a forwarding instance (RF) whose direct call is gone is discharged by this table; _get_indices (shared with C01).',
 'C13': 'Round 11: _maybe_delete_axes by scenario table (exactly the candidate axes that no variable uses are removed, each decided on its own) when the structural reading (R4) does not recognise the search; '
        'rename_axes / rename_keys (R6) on trial with their tables; loops over range(len(xs)) read like enumerate(xs).',
 'C14': 'Round 11: _apply_dimarray_axis (R2) on trial with its table; workers bound with functools.partial before being handed to reduce_axis read like the options passed to reduce_axis; closures see the environment they were defined in.',
 'C15': 'Round 11: parameter types of private module-level helpers are inferred from their call sites; super(Class, obj).method(...) acts on obj.',
 'C11': 'Round 11: unflatten (R2 / R3) on trial with its table.',
}.items():
    ADDENDA[_pid] = (ADDENDA.get(_pid, '') + ' ' + _extra).strip()
