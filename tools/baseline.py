#!/venv/bin/python
"""Run the pinned baseline test command on a repo dir and report stable-pass tests that no longer pass."""
import json, subprocess, sys, tempfile, os, xml.etree.ElementTree as ET
repo = sys.argv[1] if len(sys.argv) > 1 else '/repo'
base = json.load(open('/root/.vp/BASELINE.json'))
fd, junit = tempfile.mkstemp(suffix='.xml'); os.close(fd)
cmd = ['/venv/bin/python', '-m', 'pytest', '-ra', '-q', '-p', 'no:cacheprovider', '--timeout=900',
       '--continue-on-collection-errors', '--junitxml=' + junit]
r = subprocess.run(cmd, cwd=repo, capture_output=True, text=True)
passed = set()
for tc in ET.parse(junit).getroot().iter('testcase'):
    if not any(ch.tag in ('failure', 'error', 'skipped') for ch in tc):
        passed.add(tc.get('classname') + '::' + tc.get('name'))
os.unlink(junit)
missing = [t for t in base['stable_pass'] if t not in passed]
print('passed=%d stable=%d missing=%d' % (len(passed), len(base['stable_pass']), len(missing)))
for m in missing[:20]: print('  MISSING', m)
print(r.stdout.strip().splitlines()[-1] if r.stdout.strip() else r.stderr[-300:])
sys.exit(1 if missing else 0)
