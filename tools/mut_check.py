#!/venv/bin/python
"""Re-run the checks on the mutants that sub-agents classified as breaking a property (class P in tools/mutation_triage.json): how many are decided now?
usage: tools/mut_check.py [substring of function or mutant id] [--all-props]"""
import concurrent.futures
import json
import os
import shutil
import subprocess
import sys
import tempfile

VERIF = os.path.dirname(os.path.dirname(os.path.abspath(__file__)))
rows = json.load(open(os.path.join(VERIF, 'tools', 'mutation_triage.json')))
filt = [a for a in sys.argv[1:] if not a.startswith('--')]
P = [r for r in rows if r['class'] == 'P' and (not filt or any(f in r['function'] or f in r['id'] for f in filt))]
res = json.load(open(os.path.join(VERIF, 'tools', 'mutation_results.json')))
by_id = {m['id']: m for m in res['mutants']}
head = res['repo_head']


def one(r):
    m = by_id[r['id']]
    d = tempfile.mkdtemp(prefix='dimarray-mutp-')
    try:
        subprocess.run('git -C /repo archive HEAD | tar -x -C %s' % d, shell=True, check=True)
        src_old = subprocess.run(['git', '-C', '/repo', 'show', '%s:dimarray/%s' % (head, m['file'])], capture_output=True, text=True).stdout
        new = src_old[:m['start']] + m['text'] + src_old[m['end']:]
        cur = open(os.path.join(d, 'dimarray', m['file'])).read()
        if cur != src_old:
            # the file changed since the mutants were generated: re-apply as a patch
            import difflib
            diff = ''.join(difflib.unified_diff(src_old.splitlines(keepends=True), new.splitlines(keepends=True), 'a/dimarray/' + m['file'], 'b/dimarray/' + m['file'], n=3))
            p = subprocess.run(['git', 'apply', '-'], input=diff, text=True, cwd=d, capture_output=True)
            if p.returncode != 0:
                return r, 'stale', ''
        else:
            open(os.path.join(d, 'dimarray', m['file']), 'w').write(new)
        props = ['C%02d' % i for i in range(1, 20)] if '--all-props' in sys.argv else [(r['property'] or '')[:3]]
        fired, undec = [], []
        for prop in props:
            c = subprocess.run(['/venv/bin/python', '-m', 'sa.main', prop, '--repo', d, '--tier', 'quick', '--no-evidence'], capture_output=True, text=True, cwd=VERIF)
            if c.returncode == 1:
                rules = sorted(set(l.split()[1] for l in c.stdout.splitlines() if l.strip().startswith('rule ')))
                fired.append('%s[%s]' % (prop, ','.join(rules)))
            elif c.returncode != 0:
                undec.append(prop)
        return r, ('detected' if fired else 'undecided' if undec else 'missed'), ' '.join(fired or undec)
    finally:
        shutil.rmtree(d, ignore_errors=True)


counts = {}
missed_by_fn = {}
with concurrent.futures.ThreadPoolExecutor(max_workers=14) as ex:
    for r, st, detail in ex.map(one, P):
        counts[st] = counts.get(st, 0) + 1
        if st != 'detected':
            missed_by_fn.setdefault(r['function'], []).append((r['id'], st, r['what'][:70]))
        if '-v' in sys.argv:
            print(st, r['id'], detail, '|', r['what'][:60])
print('P mutants: %d -> %s' % (len(P), counts))
for fn, lst in sorted(missed_by_fn.items(), key=lambda kv: -len(kv[1])):
    print('%3d %s' % (len(lst), fn))
    if '--list' in sys.argv:
        for x in lst:
            print('       ', x)
