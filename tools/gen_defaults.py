#!/venv/bin/python
"""(Re)generate sa/tables/defaults.json: literal defaults of the public entry points of the analysed modules (review the diff before committing)."""
import json, os, sys
sys.path.insert(0, os.path.dirname(os.path.dirname(os.path.abspath(__file__))))
from sa.loader import load
from sa import defaults_rule as DR
P = load(sys.argv[1] if len(sys.argv) > 1 else '/repo')
t = DR.current(P)
json.dump(t, open(DR.TABLE, 'w'), indent=1, sort_keys=True)
un = [q for q in t if not DR.owners(q)]
print('functions', len(t), 'defaults', sum(len(d) for d in t.values()), 'without owner property', len(un))
for q in un[:40]:
    print('   no owner:', q)
