#!/venv/bin/python
"""(Re)generate sa/tables/scenarios.json from the tree under analysis: the outcome of every scenario of sa/scenarios_def.py.  The table is a frozen reference: review the
diff against the property statements before committing it (an entry that says `undecided:` must not be committed - extend the interpreter or drop the scenario)."""
import json
import os
import sys
sys.path.insert(0, os.path.dirname(os.path.dirname(os.path.abspath(__file__))))
from sa.loader import load
from sa import scenarios_def as SD
from sa.scenario_rule import outcomes, TABLE

repo = sys.argv[1] if len(sys.argv) > 1 and not sys.argv[1].startswith('--') else '/repo'
P = load(repo)
table = {}
bad = 0
for q, (props, gen) in sorted(SD.SCENARIOS.items()):
    res = outcomes(P, q, gen)
    if res is None:
        print('missing function', q)
        bad += 1
        continue
    d = table[q] = {}
    kinds = {}
    for label, o in res:
        if label in d:
            print('duplicate scenario label', q, label)
            bad += 1
        d[label] = '%s:%s' % (o.kind, o.text)
        kinds[o.kind] = kinds.get(o.kind, 0) + 1
        if o.kind == 'undecided':
            print('UNDECIDED', q, label, o.text[:200])
            bad += 1
    print('%-60s %s' % (q, kinds))
if '--check' in sys.argv:
    old = json.load(open(TABLE)) if os.path.exists(TABLE) else {}
    diff = [(q, l) for q in table for l in table[q] if old.get(q, {}).get(l) != table[q][l]]
    print('%d entries differ from the frozen table' % len(diff))
    for q, l in diff[:20]:
        print('  ', q, '|', l, '\n      now ', table[q][l][:200], '\n      was ', str(old.get(q, {}).get(l))[:200])
    sys.exit(1 if diff or bad else 0)
os.makedirs(os.path.dirname(TABLE), exist_ok=True)
json.dump(table, open(TABLE, 'w'), indent=1, sort_keys=True)
print('written', TABLE, 'entries', sum(len(v) for v in table.values()), 'problems', bad)
