#!/venv/bin/python
"""Robustness of the checks against behaviour-preserving refactorings (checker validation, not a property verdict).

For every core source file and every automatic neutral transformation below, a scratch copy of /repo/dimarray gets the transformed
file (computed on the AST, written back with ast.unparse) and *all* claimed checks are run on it: every check must stay at exit 0.

  unparse      ast.unparse round trip (formatting, comments dropped)
  rename       every local variable of every function renamed (name -> name_r)
  augassign    x op= e  ->  x = x op e      (plain names only)
  swapcmp      a == b -> b == a, a != b -> b != a, a < b -> b > a ...
  invertif     if c: A else: B  ->  if not c: B else: A
  kwsort       keyword arguments of calls sorted by name
  retvar       return EXPR -> _ret = EXPR; return _ret
  ternary2if   x = a if c else b -> if/else statement
  comp2loop    X = [elt for v in it if c] -> explicit loop with append
  extractarg   y = f(g(x), ...) -> _a = g(x); y = f(_a, ...)
  enum2range   for i, x in enumerate(xs) -> for i in range(len(xs)): x = xs[i]
  assert2raise assert c, msg -> if not c: raise AssertionError(msg)
"""
import ast
import concurrent.futures
import os
import shutil
import subprocess
import sys
import tempfile

VERIF = os.path.dirname(os.path.dirname(os.path.abspath(__file__)))
sys.path.insert(0, VERIF)
FILES = ['core/indexing.py', 'core/bases.py', 'core/axes.py', 'core/align.py', 'core/operation.py', 'core/transform.py', 'core/reshape.py',
         'core/missingvalues.py', 'core/dimarraycls.py', 'dataset.py', 'lib/stats.py']


class Rename(ast.NodeTransformer):
    """rename local variables (not parameters, not globals / builtins) inside each function"""
    def visit_FunctionDef(self, node):
        params = set(a.arg for a in node.args.posonlyargs + node.args.args + node.args.kwonlyargs)
        if node.args.vararg:
            params.add(node.args.vararg.arg)
        if node.args.kwarg:
            params.add(node.args.kwarg.arg)
        assigned = set()
        for n in ast.walk(node):
            if isinstance(n, ast.Name) and isinstance(n.ctx, ast.Store):
                assigned.add(n.id)
            if isinstance(n, (ast.FunctionDef, ast.ClassDef)) and n is not node:
                assigned.discard(n.name)
            if isinstance(n, (ast.Global, ast.Nonlocal)):
                for x in n.names:
                    params.add(x)
            if isinstance(n, (ast.Import, ast.ImportFrom)):
                for a in n.names:
                    params.add(a.asname or a.name.split('.')[0])
        nested = [n for n in ast.walk(node) if isinstance(n, (ast.FunctionDef, ast.Lambda)) and n is not node]
        # keep names that nested functions / comprehensions capture simple: rename everywhere in this function body
        local = assigned - params - set(n.name for n in nested if isinstance(n, ast.FunctionDef))
        for n in nested:        # a nested function's parameters shadow: leave those names alone
            a = n.args
            local -= set(x.arg for x in a.posonlyargs + a.args + a.kwonlyargs + ([a.vararg] if a.vararg else []) + ([a.kwarg] if a.kwarg else []))
        if any(isinstance(n, ast.Call) and isinstance(n.func, ast.Name) and n.func.id in ('locals', 'vars', 'eval', 'exec') for n in ast.walk(node)):
            return node
        mapping = {v: v + '_r' for v in local}

        class R(ast.NodeTransformer):
            def visit_Name(self, n):
                if n.id in mapping:
                    return ast.copy_location(ast.Name(id=mapping[n.id], ctx=n.ctx), n)
                return n

            def visit_ExceptHandler(self, n):
                self.generic_visit(n)
                if n.name in mapping:
                    n.name = mapping[n.name]
                return n
        node.body = [R().visit(st) for st in node.body]
        return node


class AugAssign(ast.NodeTransformer):
    def visit_AugAssign(self, node):
        if isinstance(node.target, ast.Name) and isinstance(node.op, (ast.Add, ast.Sub, ast.Mult)):
            return ast.copy_location(ast.Assign(targets=[ast.Name(id=node.target.id, ctx=ast.Store())],
                                                value=ast.BinOp(left=ast.Name(id=node.target.id, ctx=ast.Load()), op=node.op, right=node.value)), node)
        return node


class SwapCmp(ast.NodeTransformer):
    SW = {ast.Eq: ast.Eq, ast.NotEq: ast.NotEq, ast.Lt: ast.Gt, ast.Gt: ast.Lt, ast.LtE: ast.GtE, ast.GtE: ast.LtE}

    def visit_Compare(self, node):
        self.generic_visit(node)
        if len(node.ops) == 1 and type(node.ops[0]) in self.SW:
            # do not swap array-valued comparisons used as masks with a scalar on the right in NumPy code? (symmetric anyway)
            return ast.copy_location(ast.Compare(left=node.comparators[0], ops=[self.SW[type(node.ops[0])]()], comparators=[node.left]), node)
        return node


class InvertIf(ast.NodeTransformer):
    def visit_If(self, node):
        self.generic_visit(node)
        if node.orelse and not (len(node.orelse) == 1 and isinstance(node.orelse[0], ast.If)):
            test = node.test.operand if (isinstance(node.test, ast.UnaryOp) and isinstance(node.test.op, ast.Not)) else ast.UnaryOp(op=ast.Not(), operand=node.test)
            return ast.copy_location(ast.If(test=test, body=node.orelse, orelse=node.body), node)
        return node


class KwSort(ast.NodeTransformer):
    def visit_Call(self, node):
        self.generic_visit(node)
        if node.keywords and all(k.arg is not None for k in node.keywords):
            node.keywords = sorted(node.keywords, key=lambda k: k.arg)
        return node




class RetVar(ast.NodeTransformer):
    """return EXPR  ->  _ret = EXPR; return _ret"""
    def visit_FunctionDef(self, node):
        self.generic_visit(node)
        return node

    def _block(self, stmts):
        out = []
        for st in stmts:
            if isinstance(st, ast.Return) and st.value is not None and not isinstance(st.value, (ast.Name, ast.Constant)):
                out.append(ast.copy_location(ast.Assign(targets=[ast.Name(id='_ret', ctx=ast.Store())], value=st.value), st))
                out.append(ast.copy_location(ast.Return(value=ast.Name(id='_ret', ctx=ast.Load())), st))
            else:
                out.append(st)
        return out

    def generic_visit(self, node):
        super().generic_visit(node)
        for f in ('body', 'orelse', 'finalbody'):
            v = getattr(node, f, None)
            if isinstance(v, list) and v and isinstance(v[0], ast.stmt):
                setattr(node, f, self._block(v))
        return node


class Ternary2If(ast.NodeTransformer):
    """x = a if c else b  ->  if c: x = a / else: x = b   (simple name targets, statement level)"""
    def visit_Assign(self, node):
        if len(node.targets) == 1 and isinstance(node.targets[0], ast.Name) and isinstance(node.value, ast.IfExp):
            t = node.targets[0].id
            mk = lambda v: ast.Assign(targets=[ast.Name(id=t, ctx=ast.Store())], value=v)
            return ast.copy_location(ast.If(test=node.value.test, body=[mk(node.value.body)], orelse=[mk(node.value.orelse)]), node)
        return node


class Comp2Loop(ast.NodeTransformer):
    """X = [elt for v in it if c]  ->  X = []; for v in it: if c: X.append(elt)   (one generator, name target, X not used in the comprehension)"""
    def generic_visit(self, node):
        super().generic_visit(node)
        for f in ('body', 'orelse', 'finalbody'):
            v = getattr(node, f, None)
            if isinstance(v, list) and v and isinstance(v[0], ast.stmt):
                out = []
                for st in v:
                    if isinstance(st, ast.Assign) and len(st.targets) == 1 and isinstance(st.targets[0], ast.Name) and isinstance(st.value, ast.ListComp) \
                            and len(st.value.generators) == 1 and not st.value.generators[0].is_async \
                            and not any(isinstance(n, ast.Name) and n.id == st.targets[0].id for n in ast.walk(st.value)):
                        x = st.targets[0].id
                        g = st.value.generators[0]
                        inner = ast.Expr(value=ast.Call(func=ast.Attribute(value=ast.Name(id=x, ctx=ast.Load()), attr='append', ctx=ast.Load()), args=[st.value.elt], keywords=[]))
                        body = [inner]
                        for c in reversed(g.ifs):
                            body = [ast.If(test=c, body=body, orelse=[])]
                        out.append(ast.copy_location(ast.Assign(targets=[ast.Name(id=x, ctx=ast.Store())], value=ast.List(elts=[], ctx=ast.Load())), st))
                        out.append(ast.copy_location(ast.For(target=g.target, iter=g.iter, body=body, orelse=[]), st))
                    else:
                        out.append(st)
                setattr(node, f, out)
        return node




class ExtractArg(ast.NodeTransformer):
    """y = f(g(x), ...)  ->  _a<n> = g(x); y = f(_a<n>, ...)   (first positional argument that is itself a call; simple statements only)"""
    def __init__(self):
        self.n = 0

    def generic_visit(self, node):
        super().generic_visit(node)
        for f in ('body', 'orelse', 'finalbody'):
            v = getattr(node, f, None)
            if isinstance(v, list) and v and isinstance(v[0], ast.stmt):
                out = []
                for st in v:
                    call = None
                    if isinstance(st, (ast.Assign, ast.Return, ast.Expr)) and isinstance(st.value, ast.Call):
                        call = st.value
                    if call is not None and call.args and isinstance(call.args[0], ast.Call) and not isinstance(node, ast.ClassDef) \
                            and isinstance(call.func, (ast.Name, ast.Attribute)) and not any(isinstance(a, ast.Starred) for a in call.args):
                        # keep left-to-right evaluation: the callee expression must be a plain (dotted) name
                        fn = call.func
                        while isinstance(fn, ast.Attribute):
                            fn = fn.value
                        if isinstance(fn, ast.Name):
                            self.n += 1
                            tmp = '_a%d' % self.n
                            out.append(ast.copy_location(ast.Assign(targets=[ast.Name(id=tmp, ctx=ast.Store())], value=call.args[0]), st))
                            call.args[0] = ast.Name(id=tmp, ctx=ast.Load())
                    out.append(st)
                setattr(node, f, out)
        return node




class Enum2Range(ast.NodeTransformer):
    """for i, x in enumerate(xs): ...  ->  for i in range(len(xs)): x = xs[i]; ...   (xs a plain or dotted name)"""
    def visit_For(self, node):
        self.generic_visit(node)
        it = node.iter
        if isinstance(it, ast.Call) and isinstance(it.func, ast.Name) and it.func.id == 'enumerate' and len(it.args) == 1 and not it.keywords \
                and isinstance(node.target, ast.Tuple) and len(node.target.elts) == 2 and all(isinstance(e, ast.Name) for e in node.target.elts):
            xs = it.args[0]
            base = xs
            while isinstance(base, ast.Attribute):
                base = base.value
            if isinstance(base, ast.Name):
                i, x = node.target.elts
                get = ast.Assign(targets=[ast.Name(id=x.id, ctx=ast.Store())], value=ast.Subscript(value=xs, slice=ast.Name(id=i.id, ctx=ast.Load()), ctx=ast.Load()))
                new = ast.For(target=ast.Name(id=i.id, ctx=ast.Store()),
                              iter=ast.Call(func=ast.Name(id='range', ctx=ast.Load()), args=[ast.Call(func=ast.Name(id='len', ctx=ast.Load()), args=[xs], keywords=[])], keywords=[]),
                              body=[get] + node.body, orelse=node.orelse)
                return ast.copy_location(new, node)
        return node




class Assert2Raise(ast.NodeTransformer):
    """assert c, msg  ->  if not c: raise AssertionError(msg)"""
    def visit_Assert(self, node):
        exc = ast.Call(func=ast.Name(id='AssertionError', ctx=ast.Load()), args=[node.msg] if node.msg is not None else [], keywords=[])
        return ast.copy_location(ast.If(test=ast.UnaryOp(op=ast.Not(), operand=node.test), body=[ast.Raise(exc=exc, cause=None)], orelse=[]), node)


class InvertIfExp(ast.NodeTransformer):
    """a if c else b  ->  b if not c else a"""
    def visit_IfExp(self, node):
        self.generic_visit(node)
        test = node.test.operand if (isinstance(node.test, ast.UnaryOp) and isinstance(node.test.op, ast.Not)) else ast.UnaryOp(op=ast.Not(), operand=node.test)
        return ast.copy_location(ast.IfExp(test=test, body=node.orelse, orelse=node.body), node)


class DeMorgan(ast.NodeTransformer):
    """not a and not b -> not (a or b);  not a or not b -> not (a and b)"""
    def visit_BoolOp(self, node):
        self.generic_visit(node)
        if len(node.values) >= 2 and all(isinstance(v, ast.UnaryOp) and isinstance(v.op, ast.Not) for v in node.values):
            other = ast.Or() if isinstance(node.op, ast.And) else ast.And()
            return ast.copy_location(ast.UnaryOp(op=ast.Not(), operand=ast.BoolOp(op=other, values=[v.operand for v in node.values])), node)
        return node


class LenZero(ast.NodeTransformer):
    """len(x) == 0 -> not len(x);  x.size == 0 -> not x.size;  len(x) > 0 / x.size > 0 -> the bare truth value (inside if / while tests and boolean operators only)"""
    @staticmethod
    def _sized(n):
        return (isinstance(n, ast.Call) and isinstance(n.func, ast.Name) and n.func.id == 'len' and len(n.args) == 1) or (isinstance(n, ast.Attribute) and n.attr == 'size')

    def _conv(self, t):
        if isinstance(t, ast.BoolOp):
            t.values = [self._conv(v) for v in t.values]
            return t
        if isinstance(t, ast.UnaryOp) and isinstance(t.op, ast.Not):
            t.operand = self._conv(t.operand)
            return t
        if isinstance(t, ast.Compare) and len(t.ops) == 1 and self._sized(t.left) and isinstance(t.comparators[0], ast.Constant) and t.comparators[0].value == 0:
            if isinstance(t.ops[0], ast.Eq):
                return ast.copy_location(ast.UnaryOp(op=ast.Not(), operand=t.left), t)
            if isinstance(t.ops[0], (ast.Gt, ast.NotEq)):
                return t.left
        return t

    def visit_If(self, node):
        self.generic_visit(node)
        node.test = self._conv(node.test)
        return node

    def visit_While(self, node):
        self.generic_visit(node)
        node.test = self._conv(node.test)
        return node


class ListComp2List(ast.NodeTransformer):
    """[x for x in xs] -> list(xs)"""
    def visit_ListComp(self, node):
        self.generic_visit(node)
        g = node.generators
        if len(g) == 1 and not g[0].ifs and not g[0].is_async and isinstance(g[0].target, ast.Name) and isinstance(node.elt, ast.Name) and node.elt.id == g[0].target.id:
            return ast.copy_location(ast.Call(func=ast.Name(id='list', ctx=ast.Load()), args=[g[0].iter], keywords=[]), node)
        return node


class RenamePrivateParams(ast.NodeTransformer):
    """parameters of private module-level functions (name starts with one underscore, no decorator, no **kwargs use by name) get a `_p` suffix; their call
    sites inside the module pass them positionally or are rewritten to the new keyword"""
    def visit_Module(self, node):
        ren = {}
        for st in node.body:
            if isinstance(st, ast.FunctionDef) and st.name.startswith('_') and not st.name.startswith('__') and not st.decorator_list and not st.args.kwarg \
                    and not st.args.kwonlyargs:
                names = [a.arg for a in st.args.args]
                inner = set(n.id for n in ast.walk(st) if isinstance(n, ast.Name)) | set(a.arg for f in ast.walk(st) if isinstance(f, (ast.FunctionDef, ast.Lambda)) and f is not st
                                                                                           for a in f.args.args)
                m = dict((n, n + '_p') for n in names if n + '_p' not in inner and n not in ('self', 'cls'))
                # nested functions / lambdas that re-bind a parameter name: leave the whole function alone
                rebinding = any(isinstance(f, (ast.FunctionDef, ast.Lambda)) and f is not st and any(a.arg in m for a in f.args.args) for f in ast.walk(st))
                # a function that some call hands `**mapping` to receives keyword names computed elsewhere (Axes._init(*args, **kwargs) -> _init_axes): renaming
                # its parameters would break those callers - the interpreter of the scenario tables noticed that this case was not behaviour-preserving
                starred = any(isinstance(c, ast.Call) and isinstance(c.func, ast.Name) and c.func.id == st.name and any(k.arg is None for k in c.keywords) for c in ast.walk(node))
                if m and not rebinding and not starred:
                    ren[st.name] = m
        for st in node.body:
            if isinstance(st, ast.FunctionDef) and st.name in ren:
                m = ren[st.name]
                for a in st.args.args:
                    a.arg = m.get(a.arg, a.arg)
                for n in ast.walk(st):
                    if isinstance(n, ast.Name) and n.id in m:
                        n.id = m[n.id]
        for n in ast.walk(node):
            if isinstance(n, ast.Call) and isinstance(n.func, ast.Name) and n.func.id in ren:
                for k in n.keywords:
                    if k.arg in ren[n.func.id]:
                        k.arg = ren[n.func.id][k.arg]
        return node


class Unpack2Index(ast.NodeTransformer):
    """a, b = f(...)  ->  _t = f(...); a = _t[0]; b = _t[1]   (call right-hand sides, plain name targets)"""
    def __init__(self):
        self.n = 0

    def _stmts(self, body):
        out = []
        for st in body:
            # (not for calls that give a one-shot iterator: `a, b = zip(...)` unpacks it, `zip(...)[0]` is a TypeError - the interpreter of the scenario tables
            # noticed that the transformation itself was not behaviour-preserving there)
            if isinstance(st, ast.Assign) and len(st.targets) == 1 and isinstance(st.targets[0], ast.Tuple) and isinstance(st.value, ast.Call) \
                    and all(isinstance(e, ast.Name) for e in st.targets[0].elts) \
                    and not (isinstance(st.value.func, ast.Name) and st.value.func.id in ('zip', 'map', 'filter', 'enumerate', 'reversed', 'iter')):
                self.n += 1
                t = '_unp%d' % self.n
                out.append(ast.copy_location(ast.Assign(targets=[ast.Name(id=t, ctx=ast.Store())], value=st.value), st))
                for i, e in enumerate(st.targets[0].elts):
                    out.append(ast.copy_location(ast.Assign(targets=[ast.Name(id=e.id, ctx=ast.Store())],
                                                            value=ast.Subscript(value=ast.Name(id=t, ctx=ast.Load()), slice=ast.Constant(value=i), ctx=ast.Load())), st))
            else:
                out.append(st)
        return out

    def generic_visit(self, node):
        super().generic_visit(node)
        for f in ('body', 'orelse', 'finalbody'):
            b = getattr(node, f, None)
            if isinstance(b, list) and b and isinstance(b[0], ast.stmt):
                setattr(node, f, self._stmts(b))
        return node


TRANSFORMS = {'unparse': None, 'rename': Rename, 'augassign': AugAssign, 'swapcmp': SwapCmp, 'invertif': InvertIf, 'kwsort': KwSort, 'retvar': RetVar, 'ternary2if': Ternary2If, 'comp2loop': Comp2Loop, 'extractarg': ExtractArg, 'enum2range': Enum2Range, 'assert2raise': Assert2Raise,
              'invertifexp': InvertIfExp, 'demorgan': DeMorgan, 'lenzero': LenZero, 'listcomp2list': ListComp2List, 'renameprivparams': RenamePrivateParams,
              'unpack2index': Unpack2Index}


def transform(src, name):
    tree = ast.parse(src)
    cls = TRANSFORMS[name]
    if cls is not None:
        tree = cls().visit(tree)
        ast.fix_missing_locations(tree)
    return ast.unparse(tree) + '\n'


def run_one(args):
    tname, rel, base, props = args
    d = os.path.join(base, '%s-%s' % (tname, rel.replace('/', '_')))
    os.makedirs(d)
    try:
        shutil.copytree('/repo/dimarray', os.path.join(d, 'dimarray'), ignore=shutil.ignore_patterns('__pycache__', '*.pyc'))
        p = os.path.join(d, 'dimarray', rel)
        src = open(p).read()
        new = transform(src, tname)
        compile(new, p, 'exec')
        open(p, 'w').write(new)
        bad = []
        for prop in props:
            r = subprocess.run([os.path.join(VERIF, 'check'), prop, '--repo', d], capture_output=True, text=True, cwd=VERIF)
            if r.returncode != 0:
                lines = [l for l in r.stdout.splitlines() if l.startswith(('  rule', 'ANALYSIS-ERROR', '    construct'))][:4]
                bad.append((prop, r.returncode, lines))
        return tname, rel, bad
    finally:
        shutil.rmtree(d, ignore_errors=True)


def main():
    from sa.main import CLAIMED
    only_t = [a for a in sys.argv[1:] if a in TRANSFORMS] or list(TRANSFORMS)
    only_p = [a for a in sys.argv[1:] if a.startswith('C')] or CLAIMED
    base = tempfile.mkdtemp(prefix='dimarray-neutral-')
    jobs = [(t, f, base, only_p) for t in only_t for f in FILES]
    nbad = 0
    try:
        with concurrent.futures.ThreadPoolExecutor(max_workers=16) as ex:
            for tname, rel, bad in ex.map(run_one, jobs):
                for prop, rc, lines in bad:
                    nbad += 1
                    print('FALSE-ALARM %-9s %-22s %s exit=%d' % (tname, rel, prop, rc))
                    for l in lines:
                        print('      ' + l[:200])
    finally:
        shutil.rmtree(base, ignore_errors=True)
    print('neutral: %d transformed files x %d checks, %d false alarms' % (len(jobs), len(only_p), nbad))
    return 1 if nbad else 0


if __name__ == '__main__':
    sys.exit(main())
