#!/venv/bin/python
"""Regenerate /verif/MANIFEST.json from the table below (kept in one place so that the
claimed list, the not_applicable list and the commands never drift apart)."""
import json
import os
import subprocess

VERIF = os.path.dirname(os.path.dirname(os.path.abspath(__file__)))

# id -> (technique, level text, level note, design ref)
CLAIMS = {}
NOT_APPLICABLE = {}
ADDENDA = {}


def claim(pid, technique, text, note, ref):
    CLAIMS[pid] = (technique, text, note, ref)


COMMON_NOTE = ("Trusted base: CPython ast; frozen tables of NumPy semantics (which calls copy / view / mutate, "
               "searchsorted sides, C-order reshape); the repository's dynamic-dispatch idioms as modelled in "
               "sa/loader.py. A HOLDS verdict is a structural necessary condition of the behaviour, not the "
               "behavioural property itself; value-level clauses are listed under coverage.not_decided.")

exec(open(os.path.join(VERIF, 'tools', 'claims.py')).read())


def main():
    hooks_commits = []
    checks = []
    for pid in sorted(CLAIMS):
        technique, text, note, ref = CLAIMS[pid]
        checks.append({
            'property_id': pid,
            'quick_cmd': './check %s --tier quick' % pid,
            'thorough_cmd': './check %s --tier thorough' % pid,
            'evidence_file': '/verif/evidence/%s.json' % pid,
            'replay_cmd_template': './check %s --replay {path}' % pid,
            'engine': 'sa',
            'level_claimed': {'category': 'other', 'text': text + (' ' + ADDENDA[pid] if pid in ADDENDA else ''), 'design_ref': ref},
            'level_note': note + ' ' + COMMON_NOTE,
            'technique': technique,
        })
    manifest = {
        'version': 1,
        'setup_cmd': 'true',
        'hooks': {
            'guard': 'DIMARRAY_VERIF',
            'enable': 'none needed: the checks parse /repo sources with ast and never import or run dimarray; '
                      'the guard variable is declared for the interface and is unused',
            'baseline_off_cmd': 'cd /repo && /venv/bin/python -m pytest -ra -q -p no:cacheprovider --timeout=900 '
                                '--continue-on-collection-errors',
            'source_commits': hooks_commits,
            'add_only': True,
        },
        'engines': [{
            'name': 'sa', 'path': '/verif/sa',
            'serves_properties': sorted(CLAIMS),
            'kind_free_text': 'static analysis on the stdlib ast: program model with the repo\'s dispatch idioms, '
                              'path-sensitive value numbering (provenance terms, guards, events), finite decision '
                              'tables, interprocedural alias/effect summaries, sibling/registry agreement, NumPy stub '
                              'resolution; no execution of repository code, no solver',
        }],
        'checks': checks,
        'notes': 'Static analysis only (see DESIGN.md). Exit 0 = every obligation discharged; 1 = VIOLATION with a '
                 'witness construct; 2 = ANALYSIS-ERROR (undecided: unknown idiom or vanished anchor). Known findings '
                 'in /verif/known_findings.json. Checker self-test: ./check selftest.',
        'not_applicable': [{'property_id': k, 'reason': v} for k, v in sorted(NOT_APPLICABLE.items())],
    }
    with open(os.path.join(VERIF, 'MANIFEST.json'), 'w') as f:
        json.dump(manifest, f, indent=1)
    print('claimed:', ' '.join(sorted(CLAIMS)))
    print('not applicable:', ' '.join(sorted(NOT_APPLICABLE)))


if __name__ == '__main__':
    main()
