#!/venv/bin/python
"""Seeded changes written by independent sub-agents (they saw only the property text).

  tools/seeds.py harvest            verify every /tmp/seed/Cxx/out/{patch,demo,meta}N and copy the
                                    confirmed ones to /verif/seeded/<id>/
  tools/seeds.py run [--all-props]  apply each seeded patch to a scratch copy of /repo and run the
                                    property's check (and, with --all-props, every claimed check) on it

A seeded change is kept only when: the patch applies to the clean /repo tree, the pinned baseline
(180 stable tests) still passes with it, the demonstration exits 1 with it and 0 without it.
"""
import glob
import json
import os
import shutil
import subprocess
import sys
import tempfile

VERIF = os.path.dirname(os.path.dirname(os.path.abspath(__file__)))
SEEDED = os.path.join(VERIF, 'seeded')
PY = '/venv/bin/python'


def scratch(patch=None):
    d = tempfile.mkdtemp(prefix='dimarray-seed-')
    for item in ('dimarray', 'tests', 'conftest.py', 'pyproject.toml', 'setup.py'):
        src = os.path.join('/repo', item)
        if os.path.isdir(src):
            shutil.copytree(src, os.path.join(d, item), ignore=shutil.ignore_patterns('__pycache__', '*.pyc'))
        elif os.path.exists(src):
            shutil.copy(src, d)
    if patch:
        r = subprocess.run(['git', 'apply', '--whitespace=nowarn', patch], cwd=d, capture_output=True, text=True)
        if r.returncode != 0:
            shutil.rmtree(d, ignore_errors=True)
            return None, r.stderr
    return d, ''


def run_demo(demo, root):
    env = dict(os.environ, PYTHONPATH=root, PYTHONDONTWRITEBYTECODE='1')
    r = subprocess.run([PY, demo], cwd=root, env=env, capture_output=True, text=True, timeout=600)
    return r.returncode, (r.stdout + r.stderr)[-600:]


def harvest(root='/tmp/seed', tag=''):
    os.makedirs(SEEDED, exist_ok=True)
    clean, _ = scratch()
    kept = 0
    try:
        for patch in sorted(glob.glob(root + '/C*/out/patch*.diff')):
            out = os.path.dirname(patch)
            pid = os.path.basename(os.path.dirname(out))
            n = os.path.basename(patch)[5:-5]
            demo = os.path.join(out, 'demo%s.py' % n)
            meta = os.path.join(out, 'meta%s.json' % n)
            sid = '%s-%s%s' % (pid, tag, n)
            if not (os.path.exists(demo) and os.path.exists(meta)):
                print(sid, 'SKIP incomplete')
                continue
            d, err = scratch(patch)
            if d is None:
                print(sid, 'SKIP patch does not apply:', err[:200])
                continue
            try:
                files = subprocess.run(['git', 'apply', '--numstat', patch], capture_output=True, text=True).stdout
                if 'tests/' in files:
                    print(sid, 'SKIP touches tests')
                    continue
                b = subprocess.run([os.path.join(VERIF, 'tools', 'baseline.py'), d], capture_output=True, text=True)
                base_line = b.stdout.splitlines()[0] if b.stdout else ''
                rc_with, out_with = run_demo(demo, d)
                rc_without, out_without = run_demo(demo, clean)
                ok = b.returncode == 0 and rc_with == 1 and rc_without == 0
                print(sid, 'KEEP' if ok else 'REJECT', '| baseline:', base_line, '| demo with patch exit', rc_with, '| without', rc_without)
                if not ok:
                    print('   ', out_with[-300:].replace('\n', ' | '))
                    continue
                dst = os.path.join(SEEDED, sid)
                os.makedirs(dst, exist_ok=True)
                shutil.copy(patch, os.path.join(dst, 'patch.diff'))
                shutil.copy(demo, os.path.join(dst, 'demo.py'))
                try:
                    m = json.load(open(meta))
                except Exception:
                    m = {'property': pid}
                m['property'] = pid
                m['id'] = sid
                m['author'] = 'independent sub-agent given only the property text and a scratch worktree'
                m['confirmed'] = {
                    'applies_to_repo_head': subprocess.run(['git', '-C', '/repo', 'rev-parse', '--short', 'HEAD'], capture_output=True, text=True).stdout.strip(),
                    'baseline_with_patch': base_line,
                    'demo_exit_with_patch': rc_with,
                    'demo_exit_without_patch': rc_without,
                    'demo_output_with_patch': out_with[-400:],
                    'how': 'tools/seeds.py harvest: scratch copy of /repo + git apply; tools/baseline.py; demo run with PYTHONPATH=<scratch>',
                }
                json.dump(m, open(os.path.join(dst, 'meta.json'), 'w'), indent=1)
                kept += 1
            finally:
                shutil.rmtree(d, ignore_errors=True)
    finally:
        shutil.rmtree(clean, ignore_errors=True)
    print('kept', kept)


def run(all_props=False, only=None):
    sys.path.insert(0, VERIF)
    from sa.main import CLAIMED
    results = {}
    rows = []
    for dst in sorted(d for d in glob.glob(os.path.join(SEEDED, '*')) if os.path.isdir(d)):
        sid = os.path.basename(dst)
        if only and only not in sid:
            continue
        meta = json.load(open(os.path.join(dst, 'meta.json')))
        pid = meta['property']
        if meta.get('superseded'):
            rows.append((sid, 'SUPERSEDED', meta['superseded']['by'][:80]))
            continue
        d, err = scratch(os.path.join(dst, 'patch.diff'))
        if d is None:
            rows.append((sid, 'STALE (patch no longer applies)', ''))
            continue
        try:
            props = CLAIMED if all_props else [pid]
            hit = []
            und = []
            for p in props:
                if not os.path.exists(os.path.join(VERIF, 'sa', 'props', p.lower() + '.py')):
                    continue
                r = subprocess.run([os.path.join(VERIF, 'check'), p, '--repo', d], capture_output=True, text=True, cwd=VERIF)
                if r.returncode == 1:
                    rules = sorted(set(l.split()[1] for l in r.stdout.splitlines() if l.startswith('  rule ')))
                    hit.append('%s[%s]' % (p, ','.join(rules)))
                elif r.returncode == 2:
                    und.append(p)
            status = 'DETECTED' if hit else ('UNDECIDED' if und else 'MISSED')
            rows.append((sid, status, ' '.join(hit) + (' undecided:' + ','.join(und) if und else '')))
        finally:
            shutil.rmtree(d, ignore_errors=True)
    for r in rows:
        print('%-8s %-10s %s' % r)
    n = len(rows)
    print('seeded: %d, detected %d, undecided %d, missed %d' % (
        n, sum(r[1] == 'DETECTED' for r in rows), sum(r[1] == 'UNDECIDED' for r in rows), sum(r[1] == 'MISSED' for r in rows)))
    json.dump([{'id': r[0], 'status': r[1], 'by': r[2]} for r in rows], open(os.path.join(SEEDED, 'RESULTS.json'), 'w'), indent=1)


def reconfirm(sids):
    """re-confirm (rebased) seeds against the current /repo: patch applies, baseline intact, demo exits 1 with / 0 without"""
    clean, _ = scratch()
    head = subprocess.run(['git', '-C', '/repo', 'rev-parse', '--short', 'HEAD'], capture_output=True, text=True).stdout.strip()
    try:
        for sid in sids:
            dst = os.path.join(SEEDED, sid)
            patch, demo, metaf = (os.path.join(dst, x) for x in ('patch.diff', 'demo.py', 'meta.json'))
            d, err = scratch(patch)
            if d is None:
                print(sid, 'patch does not apply:', err[:200])
                continue
            try:
                b = subprocess.run([os.path.join(VERIF, 'tools', 'baseline.py'), d], capture_output=True, text=True)
                base_line = b.stdout.splitlines()[0] if b.stdout else ''
                rc_with, out_with = run_demo(demo, d)
                rc_without, _ = run_demo(demo, clean)
                ok = b.returncode == 0 and rc_with == 1 and rc_without == 0
                print(sid, 'CONFIRMED' if ok else 'NOT-CONFIRMED', '| baseline:', base_line, '| demo with patch exit', rc_with, '| without', rc_without)
                if ok:
                    m = json.load(open(metaf))
                    if not isinstance(m.get('rebased'), list):
                        m['rebased'] = [m['rebased']] if m.get('rebased') else []
                    m['rebased'].append({'onto': head, 'why': 'a later fix: commit in /repo touched the same lines; same change re-expressed on the repaired code',
                                                        'baseline_with_patch': base_line, 'demo_exit_with_patch': rc_with, 'demo_exit_without_patch': rc_without})
                    json.dump(m, open(metaf, 'w'), indent=1)
            finally:
                shutil.rmtree(d, ignore_errors=True)
    finally:
        shutil.rmtree(clean, ignore_errors=True)


NEUTRAL = os.path.join(VERIF, 'seeded_neutral')


def _hash_line(script, root):
    env = dict(os.environ, PYTHONPATH=root, PYTHONDONTWRITEBYTECODE='1')
    r = subprocess.run([PY, '-W', 'ignore', script], cwd=root, env=env, capture_output=True, text=True, timeout=1200)
    lines = [l for l in r.stdout.splitlines() if l.startswith('HASH')]
    return r.returncode, (lines[-1] if lines else ''), (r.stdout + r.stderr)[-300:]


def harvest_neutral(root='/tmp/seed5', tag='r5-'):
    """behaviour-preserving refactorings written by independent sub-agents: kept when the patch applies, the baseline is intact and the
    sub-agent's differential script prints the same HASH line on the clean and on the refactored tree"""
    os.makedirs(NEUTRAL, exist_ok=True)
    clean, _ = scratch()
    kept = 0
    try:
        for patch in sorted(glob.glob(root + '/C*/out/patch*.diff')):
            out = os.path.dirname(patch)
            pid = os.path.basename(os.path.dirname(out))
            n = os.path.basename(patch)[5:-5]
            equiv = os.path.join(out, 'equiv%s.py' % n)
            meta = os.path.join(out, 'meta%s.json' % n)
            sid = '%s-%s%s' % (pid, tag, n)
            if not (os.path.exists(equiv) and os.path.exists(meta)):
                print(sid, 'SKIP incomplete')
                continue
            d, err = scratch(patch)
            if d is None:
                print(sid, 'SKIP patch does not apply:', err[:200])
                continue
            try:
                files = subprocess.run(['git', 'apply', '--numstat', patch], capture_output=True, text=True).stdout
                if 'tests/' in files:
                    print(sid, 'SKIP touches tests')
                    continue
                b = subprocess.run([os.path.join(VERIF, 'tools', 'baseline.py'), d], capture_output=True, text=True)
                base_line = b.stdout.splitlines()[0] if b.stdout else ''
                rc1, h_with, o1 = _hash_line(equiv, d)
                rc0, h_without, o0 = _hash_line(equiv, clean)
                ok = b.returncode == 0 and rc1 == 0 and rc0 == 0 and h_with and h_with == h_without
                print(sid, 'KEEP' if ok else 'REJECT', '| baseline:', base_line, '|', h_with[:24], '|', h_without[:24])
                if not ok:
                    print('   ', o1.replace('\n', ' | '))
                    continue
                dst = os.path.join(NEUTRAL, sid)
                os.makedirs(dst, exist_ok=True)
                shutil.copy(patch, os.path.join(dst, 'patch.diff'))
                shutil.copy(equiv, os.path.join(dst, 'equiv.py'))
                try:
                    m = json.load(open(meta))
                except Exception:
                    m = {}
                m['property'] = pid
                m['id'] = sid
                m['author'] = 'independent sub-agent given only the property text and a scratch worktree; asked for behaviour-preserving refactorings'
                m['confirmed'] = {'applies_to_repo_head': subprocess.run(['git', '-C', '/repo', 'rev-parse', '--short', 'HEAD'], capture_output=True, text=True).stdout.strip(),
                                  'baseline_with_patch': base_line, 'hash_with_patch': h_with, 'hash_without_patch': h_without,
                                  'how': 'tools/seeds.py harvest-neutral: scratch copy of /repo + git apply; tools/baseline.py; equiv.py run on both trees'}
                json.dump(m, open(os.path.join(dst, 'meta.json'), 'w'), indent=1)
                kept += 1
            finally:
                shutil.rmtree(d, ignore_errors=True)
    finally:
        shutil.rmtree(clean, ignore_errors=True)
    print('kept', kept)


def run_neutral(only=None):
    """every claimed check on every refactored tree: anything but exit 0 is a false alarm (1) or a rigidity (2) of the checker"""
    sys.path.insert(0, VERIF)
    from sa.main import CLAIMED
    from concurrent.futures import ThreadPoolExecutor
    rows = []

    def one(dst):
        sid = os.path.basename(dst)
        d, err = scratch(os.path.join(dst, 'patch.diff'))
        if d is None:
            return (sid, 'STALE', '')
        try:
            alarms, und = [], []
            for p in CLAIMED:
                r = subprocess.run([os.path.join(VERIF, 'check'), p, '--repo', d], capture_output=True, text=True, cwd=VERIF)
                if r.returncode == 1:
                    rules = sorted(set(l.split()[1] for l in r.stdout.splitlines() if l.startswith('  rule ')))
                    alarms.append('%s[%s]' % (p, ','.join(rules)))
                elif r.returncode != 0:
                    msg = [l for l in r.stdout.splitlines() if l.startswith('ANALYSIS-ERROR')]
                    und.append('%s(%s)' % (p, msg[0][15:75] if msg else 'exit %d' % r.returncode))
            return (sid, 'FALSE-ALARM' if alarms else ('UNDECIDED' if und else 'SILENT'), ' '.join(alarms + und))
        finally:
            shutil.rmtree(d, ignore_errors=True)
    dsts = sorted(d for d in glob.glob(os.path.join(NEUTRAL, '*')) if os.path.isdir(d) and (not only or only in os.path.basename(d)))
    with ThreadPoolExecutor(max_workers=12) as ex:
        rows = list(ex.map(one, dsts))
    for r in rows:
        print('%-10s %-12s %s' % r)
    print('neutral refactorings: %d, silent %d, false alarms %d, undecided %d, stale %d' % (
        len(rows), sum(r[1] == 'SILENT' for r in rows), sum(r[1] == 'FALSE-ALARM' for r in rows), sum(r[1] == 'UNDECIDED' for r in rows), sum(r[1] == 'STALE' for r in rows)))
    json.dump([{'id': r[0], 'status': r[1], 'by': r[2]} for r in rows], open(os.path.join(NEUTRAL, 'RESULTS.json'), 'w'), indent=1)


if __name__ == '__main__':
    if len(sys.argv) > 1 and sys.argv[1] == 'harvest-neutral':
        harvest_neutral(*(sys.argv[2:4]))
        sys.exit(0)
    if len(sys.argv) > 1 and sys.argv[1] == 'run-neutral':
        run_neutral(sys.argv[2] if len(sys.argv) > 2 else None)
        sys.exit(0)
    if False:
        pass
    elif len(sys.argv) > 1 and sys.argv[1] == 'harvest':
        harvest(*(sys.argv[2:4]))      # harvest [root [tag]], e.g. harvest /tmp/seed2 r2-
    elif len(sys.argv) > 1 and sys.argv[1] == 'reconfirm':
        reconfirm(sys.argv[2:])
    else:
        only = None
        for a in sys.argv[2:]:
            if not a.startswith('--'):
                only = a
        run('--all-props' in sys.argv, only)
