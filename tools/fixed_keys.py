#!/venv/bin/python
"""For every selftest variant that re-introduces a repaired defect (id contains '-F<n>-' or listed below), run the property check on the
scratch copy and print the finding keys: these are the keys recorded as `fixed:` entries in known_findings.json."""
import json, os, re, shutil, subprocess, sys, tempfile
sys.path.insert(0, '/verif')
from sa import variants as V
from sa.selftest import apply_edit
EXTRA = {'c02-drop-wrap-guard-start': 'F4', 'c02-empty-axis': 'F18', 'c14-F19-newaxis': 'F19', 'c16-F20-constructor-channel': 'F20', 'c19-F21-getattr-meta': 'F21'}
out = []
for v in V.VARIANTS:
    m = re.search(r'-(F\d+)-', v['id'])
    tag = m.group(1) if m else EXTRA.get(v['id'])
    if not tag or v['expect'] != 'violation':
        continue
    d = tempfile.mkdtemp(prefix='fk-')
    try:
        shutil.copytree('/repo/dimarray', os.path.join(d, 'dimarray'), ignore=shutil.ignore_patterns('__pycache__'))
        if apply_edit(d, v) != 'ok':
            print('STALE', v['id']); continue
        for prop in v['props']:
            r = subprocess.run(['/verif/check', prop, '--repo', d], capture_output=True, text=True, cwd='/verif')
            for line in r.stdout.splitlines():
                if line.startswith('VIOLATION'):
                    rp = line.split('replay=')[1]
                    k = json.load(open(rp))
                    out.append({'tag': tag, 'variant': v['id'], 'property': prop, 'key': k['key'], 'message': k['message'][:200]})
    finally:
        shutil.rmtree(d, ignore_errors=True)
json.dump(out, sys.stdout, indent=1)
