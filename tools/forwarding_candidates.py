#!/venv/bin/python
"""List, on the current tree, the call sites that forward a parameter of the enclosing function verbatim as a keyword (kw=param) or
as a plain positional Name: candidates for the frozen option-forwarding table (sa/tables/forwarding.json)."""
import ast, sys, json
sys.path.insert(0, '/verif')
from sa.loader import load
P = load('/repo')
rows = []
for fi in sorted(P.functions.values(), key=lambda f: f.qualname):
    if fi.file.startswith(('dimarray/io/', 'dimarray/convert/', 'dimarray/plotting', 'dimarray/prettyprinting', 'dimarray/compat', 'dimarray/geo', 'dimarray/testing', 'dimarray/tools')):
        continue
    params = set(fi.params + fi.kwonly)
    for n in ast.walk(fi.node):
        if isinstance(n, ast.Call):
            callee = n.func.attr if isinstance(n.func, ast.Attribute) else (n.func.id if isinstance(n.func, ast.Name) else None)
            for k in n.keywords:
                if k.arg and isinstance(k.value, ast.Name) and k.value.id in params:
                    rows.append((fi.qualname, callee, k.arg, k.value.id, n.lineno))
for r in rows:
    print('%-60s %-28s %s=%s  :%d' % r)
print(len(rows))
