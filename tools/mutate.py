#!/venv/bin/python
"""Systematic mutation analysis of the checks (checker validation, not a property verdict).

For every core source file, every mutation operator below is applied at every site it matches (one site per mutant, the source text is spliced at the
node's position so that everything else stays as it is).  A mutant is *realistic* in the sense of the brief when the package still imports and the pinned
test suite still passes (tools/baseline.py prints missing=0); those are handed to all 19 quick checks.  Outcome per mutant:

  killed-by-tests   the existing suite notices it (not interesting here)
  detected          a check exits 1 (VIOLATION)            - listed with the rule that fired
  undecided         a check exits 2 (ANALYSIS-ERROR) and none exits 1
  survivor          tests pass, every check exits 0        - either an equivalent mutant, a change outside every property, or a blind spot: triaged by hand /
                    by sub-agents (tools/mutation_triage/), the genuine ones become seeded variants and rules

operators
  cmp        < <-> <=, > <-> >=, == <-> !=, is <-> is not, in <-> not in
  boolop     and <-> or
  not        drop a `not`
  const      0 <-> 1, -1 -> 0, True <-> False, 'left' <-> 'right', 'outer' <-> 'inner', 'label' <-> 'position', None-default kept
  arith      + <-> -, * -> +, // -> /
  slice      x[1:] <-> x[:-1], x[::-1] -> x
  dropkw     drop one keyword argument of a call
  swaparg    swap the first two positional arguments of a call with >= 2 positional arguments (names / attributes only)
  dropcopy   x.copy() -> x, copy.copy(x) / copy.deepcopy(x) -> x, np.array(x) -> np.asarray(x), list(x) -> x
  dropstmt   delete an expression statement that is a call (x.sort(), d.update(...)), an `assert`, or an `if ...: raise`
  retearly   `if c: <body>` (no else, body does not end in return/raise/continue/break) -> body skipped (`if False`)
  idx        a[0] <-> a[-1], a[i] -> a[i-1] for constant i in (1, 2)

usage: tools/mutate.py [--files f1,f2] [--ops op1,op2] [--limit N] [--jobs 16] [--out FILE]
       tools/mutate.py --show ID        print the diff of one mutant of the last run
"""
import ast
import concurrent.futures
import difflib
import hashlib
import json
import os
import shutil
import subprocess
import sys
import tempfile

VERIF = os.path.dirname(os.path.dirname(os.path.abspath(__file__)))
REPO = '/repo'
FILES = ['core/indexing.py', 'core/bases.py', 'core/axes.py', 'core/align.py', 'core/operation.py', 'core/transform.py', 'core/reshape.py',
         'core/missingvalues.py', 'core/dimarraycls.py', 'dataset.py', 'lib/stats.py', 'tools.py']
PROPS = ['C%02d' % i for i in range(1, 20)]
INT_SWAPS = {0: 1, 1: 0, 2: 1}
BOOL_SWAPS = {True: False, False: True}
STR_SWAPS = {'left': 'right', 'right': 'left', 'outer': 'inner', 'inner': 'outer', 'label': 'position', 'position': 'label', 'raise': 'clip', 'clip': 'raise',
             'ij': 'xy', 'forward': 'backward', 'backward': 'forward', 'all': 'any', 'any': 'all'}
CMP_SWAPS = {ast.Lt: ast.LtE, ast.LtE: ast.Lt, ast.Gt: ast.GtE, ast.GtE: ast.Gt, ast.Eq: ast.NotEq, ast.NotEq: ast.Eq, ast.Is: ast.IsNot, ast.IsNot: ast.Is,
             ast.In: ast.NotIn, ast.NotIn: ast.In}


def seg(src_lines, node):
    """(start offset, end offset) of a node in the joined source"""
    start = sum(len(l) for l in src_lines[:node.lineno - 1]) + len(src_lines[node.lineno - 1].encode()[:node.col_offset].decode())
    end = sum(len(l) for l in src_lines[:node.end_lineno - 1]) + len(src_lines[node.end_lineno - 1].encode()[:node.end_col_offset].decode())
    return start, end


def in_docstring_or_msg(node, parents):
    """constants inside raise / warn / assert messages, docstrings and format strings are not behaviour"""
    p = parents.get(node)
    while p is not None:
        if isinstance(p, (ast.Raise, ast.JoinedStr)):
            return True
        if isinstance(p, ast.Assert) and node is not p.test and not _inside(node, p.test):
            return True
        if isinstance(p, ast.Call) and ast.unparse(p.func).split('.')[-1] in ('warn', 'format', 'print', 'deprecated_func', 'DeprecationWarning', 'format_doc'):
            return True
        if isinstance(p, ast.Expr) and isinstance(p.value, ast.Constant):
            return True
        p = parents.get(p)
    return False


def _inside(node, root):
    return any(n is node for n in ast.walk(root))


def sites(relpath, src):
    """-> list of (op, lineno, start, end, replacement text, description)"""
    tree = ast.parse(src)
    lines = src.splitlines(keepends=True)
    parents = {}
    for p in ast.walk(tree):
        for c in ast.iter_child_nodes(p):
            parents[c] = p
    out = []

    def add(op, node, text, what):
        s, e = seg(lines, node)
        if src[s:e] != text:
            out.append((op, node.lineno, s, e, text, what))

    def enclosing_stmt_indent(node):
        return ' ' * node.col_offset
    for node in ast.walk(tree):
        if isinstance(node, (ast.FunctionDef, ast.ClassDef, ast.Module)):
            continue
        if isinstance(node, ast.Compare) and len(node.ops) == 1 and type(node.ops[0]) in CMP_SWAPS and not in_docstring_or_msg(node, parents):
            new = ast.Compare(left=node.left, ops=[CMP_SWAPS[type(node.ops[0])]()], comparators=node.comparators)
            add('cmp', node, ast.unparse(new), '%s -> %s' % (ast.unparse(node)[:60], ast.unparse(new)[:60]))
        elif isinstance(node, ast.BoolOp) and not in_docstring_or_msg(node, parents):
            new = ast.BoolOp(op=ast.Or() if isinstance(node.op, ast.And) else ast.And(), values=node.values)
            add('boolop', node, '(' + ast.unparse(new) + ')', 'and <-> or in ' + ast.unparse(node)[:70])
        elif isinstance(node, ast.UnaryOp) and isinstance(node.op, ast.Not) and not in_docstring_or_msg(node, parents):
            add('not', node, '(' + ast.unparse(node.operand) + ')', 'dropped not: ' + ast.unparse(node)[:70])
        elif isinstance(node, ast.Constant) and not in_docstring_or_msg(node, parents):
            v = node.value
            table = BOOL_SWAPS if isinstance(v, bool) else INT_SWAPS if isinstance(v, int) else STR_SWAPS if isinstance(v, str) else {}
            if v in table:
                add('const', node, repr(table[v]), '%r -> %r' % (v, table[v]))
        elif isinstance(node, ast.UnaryOp) and isinstance(node.op, ast.USub) and isinstance(node.operand, ast.Constant) and node.operand.value == 1 \
                and not in_docstring_or_msg(node, parents):
            add('const', node, '0', '-1 -> 0')
        elif isinstance(node, ast.BinOp) and isinstance(node.op, (ast.Add, ast.Sub, ast.Mult, ast.FloorDiv)) and not in_docstring_or_msg(node, parents):
            if isinstance(node.left, ast.Constant) and isinstance(node.left.value, str) or isinstance(node.right, ast.Constant) and isinstance(node.right.value, str):
                continue
            newop = {ast.Add: ast.Sub, ast.Sub: ast.Add, ast.Mult: ast.Add, ast.FloorDiv: ast.Div}[type(node.op)]()
            new = ast.BinOp(left=node.left, op=newop, right=node.right)
            add('arith', node, '(' + ast.unparse(new) + ')', '%s -> %s' % (ast.unparse(node)[:50], ast.unparse(new)[:50]))
        elif isinstance(node, ast.Subscript) and isinstance(node.ctx, ast.Load) and not in_docstring_or_msg(node, parents):
            sl = node.slice
            if isinstance(sl, ast.Slice):
                txt = ast.unparse(sl)
                repl = {'1:': ':-1', ':-1': '1:', '::-1': ':'}.get(txt.replace(' ', ''))
                if repl:
                    add('slice', node, '%s[%s]' % (ast.unparse(node.value), repl), '%s -> [%s]' % (ast.unparse(node)[:50], repl))
            elif isinstance(sl, ast.Constant) and sl.value in (0, 1, 2) and not isinstance(sl.value, bool):
                repl = {0: '-1', 1: '0', 2: '1'}[sl.value]
                add('idx', node, '%s[%s]' % (ast.unparse(node.value), repl), '%s -> [%s]' % (ast.unparse(node)[:50], repl))
            elif isinstance(sl, ast.UnaryOp) and isinstance(sl.op, ast.USub) and isinstance(sl.operand, ast.Constant) and sl.operand.value == 1:
                add('idx', node, '%s[0]' % ast.unparse(node.value), '%s -> [0]' % ast.unparse(node)[:50])
        if isinstance(node, ast.Call) and not in_docstring_or_msg(node, parents):
            fname = ast.unparse(node.func)
            if fname.split('.')[-1] in ('warn', 'format', 'deprecated_func', 'format_doc', 'super', 'isinstance', 'hasattr', 'getattr', 'print'):
                continue
            for i, k in enumerate(node.keywords):
                if k.arg is None:
                    continue
                new = ast.Call(func=node.func, args=node.args, keywords=[x for j, x in enumerate(node.keywords) if j != i])
                add('dropkw', node, ast.unparse(new), 'dropped %s= in %s(...)' % (k.arg, fname[:40]))
            if len(node.args) >= 2 and all(isinstance(a, (ast.Name, ast.Attribute, ast.Constant, ast.Subscript)) for a in node.args[:2]) \
                    and ast.unparse(node.args[0]) != ast.unparse(node.args[1]):
                new = ast.Call(func=node.func, args=[node.args[1], node.args[0]] + node.args[2:], keywords=node.keywords)
                add('swaparg', node, ast.unparse(new), 'swapped first two arguments of %s(...)' % fname[:40])
            if (fname.endswith('.copy') and not node.args and not node.keywords and isinstance(node.func, ast.Attribute)):
                add('dropcopy', node, ast.unparse(node.func.value), '%s -> %s' % (ast.unparse(node)[:50], ast.unparse(node.func.value)[:50]))
            elif fname in ('copy.copy', 'copy.deepcopy', 'list', 'tuple') and len(node.args) == 1 and not node.keywords:
                add('dropcopy', node, ast.unparse(node.args[0]), '%s -> %s' % (ast.unparse(node)[:50], ast.unparse(node.args[0])[:50]))
            elif fname == 'np.array' and node.args:
                new = ast.Call(func=ast.Attribute(value=ast.Name(id='np', ctx=ast.Load()), attr='asarray', ctx=ast.Load()), args=node.args,
                               keywords=[k for k in node.keywords if k.arg != 'copy'])
                add('dropcopy', node, ast.unparse(new), 'np.array -> np.asarray')
        if isinstance(node, ast.Expr) and isinstance(node.value, ast.Call) and not in_docstring_or_msg(node.value, parents):
            fname = ast.unparse(node.value.func)
            if fname.split('.')[-1] not in ('warn', 'print'):
                add('dropstmt', node, 'pass', 'dropped statement ' + ast.unparse(node)[:70])
        if isinstance(node, ast.Assert):
            add('dropstmt', node, 'pass', 'dropped ' + ast.unparse(node)[:70])
        if isinstance(node, ast.If) and not node.orelse:
            ends = node.body[-1]
            if len(node.body) == 1 and isinstance(ends, ast.Raise):
                add('dropstmt', node, 'pass', 'dropped `if %s: raise`' % ast.unparse(node.test)[:60])
            elif not isinstance(ends, (ast.Return, ast.Raise, ast.Continue, ast.Break)):
                s, e = seg(lines, node.test)
                out.append(('retearly', node.lineno, s, e, 'False', 'body of `if %s` skipped' % ast.unparse(node.test)[:60]))
            elif isinstance(ends, (ast.Return, ast.Continue)) and len(node.body) == 1:
                s, e = seg(lines, node.test)
                out.append(('retearly', node.lineno, s, e, 'False', 'early exit `if %s` never taken' % ast.unparse(node.test)[:60]))
    # drop duplicates (same span, same text)
    seen, uniq = set(), []
    for m in out:
        k = (m[2], m[3], m[4])
        if k not in seen:
            seen.add(k)
            uniq.append(m)
    return uniq


_ENC = {}


def enclosing(relpath, src, lineno):
    """qualified name of the innermost function / class around a line"""
    if relpath not in _ENC:
        spans = []

        def walk(node, prefix):
            for c in ast.iter_child_nodes(node):
                if isinstance(c, (ast.FunctionDef, ast.ClassDef)):
                    q = prefix + c.name
                    spans.append((c.lineno, c.end_lineno, q))
                    walk(c, q + '.')
                else:
                    walk(c, prefix)
        walk(ast.parse(src), 'dimarray.' + relpath[:-3].replace('/', '.') + '.')
        _ENC[relpath] = spans
    best = None
    for a, b, q in _ENC[relpath]:
        if a <= lineno <= b and (best is None or a >= best[0]):
            best = (a, b, q)
    return best[2] if best else None


def one(job):
    mid, relpath, start, end, text = job
    d = tempfile.mkdtemp(prefix='dimarray-mut-')
    try:
        subprocess.run('git -C %s archive HEAD | tar -x -C %s' % (REPO, d), shell=True, check=True)
        vfile = os.path.join(REPO, 'dimarray', '_version.py')
        if os.path.exists(vfile):
            shutil.copy(vfile, os.path.join(d, 'dimarray', '_version.py'))
        path = os.path.join(d, 'dimarray', relpath)
        src = open(path).read()
        new = src[:start] + text + src[end:]
        try:
            ast.parse(new)
        except SyntaxError:
            return mid, 'invalid', ''
        open(path, 'w').write(new)
        r = subprocess.run(['/venv/bin/python', os.path.join(VERIF, 'tools', 'baseline.py'), d], capture_output=True, text=True)
        line = [l for l in r.stdout.splitlines() if l.startswith('passed=')]
        if not line or 'missing=0' not in line[0]:
            return mid, 'killed-by-tests', line[0] if line else 'no result'
        fired, undec = [], []
        for prop in PROPS:
            r = subprocess.run(['/venv/bin/python', '-m', 'sa.main', prop, '--repo', d, '--tier', 'quick', '--no-evidence'], capture_output=True, text=True, cwd=VERIF)
            if r.returncode == 1:
                rules = sorted(set(l.split()[1] for l in r.stdout.splitlines() if l.strip().startswith('rule ')))
                fired.append('%s[%s]' % (prop, ','.join(rules)))
            elif r.returncode != 0:
                undec.append(prop)
        if fired:
            return mid, 'detected', ' '.join(fired)
        if undec:
            return mid, 'undecided', ' '.join(undec)
        return mid, 'survivor', ''
    finally:
        shutil.rmtree(d, ignore_errors=True)


def main():
    args = sys.argv[1:]

    def opt(name, default=None):
        return args[args.index(name) + 1] if name in args else default
    out_file = opt('--out', os.path.join(VERIF, 'tools', 'mutation_results.json'))
    if '--show' in args:
        res = json.load(open(out_file))
        m = [x for x in res['mutants'] if x['id'] == opt('--show')][0]
        src = open(os.path.join(REPO, 'dimarray', m['file'])).read()
        new = src[:m['start']] + m['text'] + src[m['end']:]
        sys.stdout.writelines(difflib.unified_diff(src.splitlines(keepends=True), new.splitlines(keepends=True), 'a/dimarray/' + m['file'], 'b/dimarray/' + m['file'], n=3))
        return
    files = opt('--files').split(',') if opt('--files') else FILES
    ops = set(opt('--ops').split(',')) if opt('--ops') else None
    limit = int(opt('--limit', '0'))
    jobs = int(opt('--jobs', '16'))
    head = subprocess.run(['git', '-C', REPO, 'rev-parse', '--short', 'HEAD'], capture_output=True, text=True).stdout.strip()
    muts = []
    for f in files:
        src = open(os.path.join(REPO, 'dimarray', f)).read()
        for op, lineno, s, e, text, what in sites(f, src):
            if ops and op not in ops:
                continue
            mid = '%s:%d:%s:%s' % (f, lineno, op, hashlib.sha1(('%d:%d:%s' % (s, e, text)).encode()).hexdigest()[:6])
            muts.append({'id': mid, 'file': f, 'line': lineno, 'op': op, 'start': s, 'end': e, 'text': text, 'what': what, 'function': enclosing(f, src, lineno)})
    if limit:
        muts = muts[::max(1, len(muts) // limit)][:limit]
    print('%d mutants over %d files (repo %s)' % (len(muts), len(files), head), flush=True)
    by_id = {m['id']: m for m in muts}
    done = 0
    with concurrent.futures.ThreadPoolExecutor(max_workers=jobs) as ex:
        for mid, status, detail in ex.map(one, [(m['id'], m['file'], m['start'], m['end'], m['text']) for m in muts]):
            by_id[mid]['status'] = status
            by_id[mid]['detail'] = detail
            done += 1
            if done % 100 == 0:
                print('  %d / %d' % (done, len(muts)), flush=True)
    counts = {}
    for m in muts:
        counts[m['status']] = counts.get(m['status'], 0) + 1
    json.dump({'repo_head': head, 'counts': counts, 'mutants': muts}, open(out_file, 'w'), indent=1)
    print('mutation: %s' % ', '.join('%s=%d' % kv for kv in sorted(counts.items())))
    real = counts.get('detected', 0) + counts.get('undecided', 0) + counts.get('survivor', 0)
    if real:
        print('of the %d mutants the test suite lets through: %d detected (%.0f%%), %d undecided, %d survivors' % (
            real, counts.get('detected', 0), 100.0 * counts.get('detected', 0) / real, counts.get('undecided', 0), counts.get('survivor', 0)))


if __name__ == '__main__':
    main()
