#!/venv/bin/python
"""debug: dump evaluator paths. usage: tools/dump.py qualname [--join] [--events] [name=constvalue ...]"""
import sys, ast
sys.path.insert(0, '/verif')
from sa.loader import load
from sa.symeval import evaluate
from sa import terms as T
args = [a for a in sys.argv[1:] if not a.startswith('--')]
import os
P = load(os.environ.get('DUMP_REPO', '/repo'))
bind = {}
for a in args[1:]:
    k, v = a.split('=', 1)
    bind[k] = T.const(ast.literal_eval(v))
class _Ctx(object):
    def __init__(self, P):
        self.P = P
        self.functions = set()
from sa.rules import default_inline
ev = evaluate(P, args[0], bind=bind, mode='join' if '--join' in sys.argv else 'fork', inline=None if '--no-inline' in sys.argv else default_inline(_Ctx(P)))
print(len(ev.paths), 'paths')
for p in ev.paths:
    print(p.kind.upper(), T.show(p.value))
    print('   guards:', ', '.join('%s=%s' % (T.show(a), v) for a, v in p.guards))
    if '--events' in sys.argv:
        for e in p.events:
            if e.kind in ('enter', 'leave', 'loop'): continue
            print('     ', e.kind, T.show(e.a) if isinstance(e.a, tuple) else e.a, '|', T.show(e.b) if isinstance(e.b, tuple) else e.b, '|', T.show(e.c) if isinstance(e.c, tuple) else e.c, '  g=', [(T.show(a)[:40], v) for a, v in e.guards[len(p.guards):]] if False else '', 'L' if e.loops else '')
