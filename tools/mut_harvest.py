#!/venv/bin/python
"""Turn the sub-agents' triage of the mutation survivors (tools/mutate.py) into the layout tools/seeds.py harvest understands.

usage: tools/mut_harvest.py /tmp/mut8 /tmp/mut8h     then     tools/seeds.py harvest /tmp/mut8h m8-
Writes also /verif/tools/mutation_triage.json: every triaged survivor with its class (E equivalent, O outside every property, P breaks a property) and reason."""
import glob
import json
import os
import shutil
import sys

src, dst = sys.argv[1], sys.argv[2]
shutil.rmtree(dst, ignore_errors=True)
rows = []
counters = {}
for tj in sorted(glob.glob(os.path.join(src, 'B*', 'out', 'triage.json'))):
    b = os.path.basename(os.path.dirname(os.path.dirname(tj)))
    try:
        tri = json.load(open(tj))
    except Exception as e:
        print('unreadable', tj, e)
        continue
    batch = json.load(open(os.path.join(src, b + '_in', 'batch.json')))
    by_id = {m['id']: (k, m) for k, m in enumerate(batch)}
    for t in tri:
        mid = t.get('id')
        if mid not in by_id:
            print('unknown mutant id', b, mid)
            continue
        k, m = by_id[mid]
        row = {'id': mid, 'batch': b, 'class': t.get('class'), 'property': t.get('property'), 'reason': t.get('reason'), 'function': m['function'], 'what': m['what']}
        rows.append(row)
        if t.get('class') == 'P' and t.get('demo') and t.get('property'):
            prop = t['property'].strip()[:3]
            demo = os.path.join(src, b, 'out', t['demo'])
            if not os.path.exists(demo):
                print('missing demo', b, mid)
                continue
            n = counters[prop] = counters.get(prop, 0) + 1
            out = os.path.join(dst, prop, 'out')
            os.makedirs(out, exist_ok=True)
            open(os.path.join(out, 'patch%d.diff' % n), 'w').write(m['diff'])
            shutil.copy(demo, os.path.join(out, 'demo%d.py' % n))
            json.dump({'property': prop, 'summary': 'one-site mutant %s (%s): %s' % (mid, m['op'], m['what']), 'needs': t.get('reason'), 'files': ['dimarray/' + m['file']],
                       'baseline': 'passed=229 stable=180 missing=0', 'mutant_id': mid}, open(os.path.join(out, 'meta%d.json' % n), 'w'), indent=1)
json.dump(rows, open('/verif/tools/mutation_triage.json', 'w'), indent=1)
cls = {}
for r in rows:
    cls[r['class']] = cls.get(r['class'], 0) + 1
print('triaged %d survivors: %s; demos laid out for %s' % (len(rows), cls, counters))
