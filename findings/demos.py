"""Concrete inputs that exhibited each genuine defect on the pinned tree (triage aid, not a check).
Run: cd /repo && /venv/bin/python /verif/findings/demos.py   -> prints OK/DEFECT per finding."""
import sys, warnings, io, contextlib
warnings.simplefilter('ignore')
with contextlib.redirect_stdout(io.StringIO()):
    import numpy as np, dimarray as da
from dimarray import DimArray, Dataset, Axis, stack, concatenate, align

def demo(name):
    def deco(f):
        try:
            ok = f()
            print('%-4s %s' % (name, 'OK' if ok else 'DEFECT'))
        except RecursionError:
            print('%-4s DEFECT (RecursionError)' % name)
        except Exception as e:
            print('%-4s DEFECT (%s: %s)' % (name, type(e).__name__, str(e)[:80]))
        return f
    return deco

A = lambda v, **ax: DimArray(np.array(v), axes=[np.array(x) for x in ax.values()], dims=list(ax))

@demo('F3')
def f3():
    a = A([10., 20, 30], x=[3, 1, 2])
    align([a], sort=True)
    return list(a.axes['x'].values) == [3, 1, 2]

@demo('F5')
def f5():
    a = A([1., 2, 4], x=[1, 2, 3])
    return list((2 / a).values) == [2., 1., .5] and list((9 // a).values) == [9., 4., 2.]

@demo('F6')
def f6():
    a = A([[1., 2], [3, 4]], x=[1, 2], y=[1, 2])
    try:
        s = stack([a, a.T], axis='k', keys=['a', 'b'])
    except ValueError:
        return True
    return s.dims == ('k', 'x', 'y') and (s.values[1] == a.values).all()

@demo('F6c')
def f6c():
    a = A(np.arange(8.).reshape(2, 2, 2), t=[0, 1], x=[1, 2], y=[1, 2])
    b = a.transpose('t', 'y', 'x')
    try:
        c = concatenate([a, b], axis='t')
    except ValueError:
        return True
    return (c.values[2:] == a.values).all()

@demo('F7')
def f7():
    a = A([1., 2], x=[1, 2])
    s = stack({'a': a, 'b': a}, axis='k')
    return s.dims == ('k', 'x') and list(s.axes['k'].values) == ['a', 'b']

@demo('F8')
def f8():
    ds = Dataset(); ds['a'] = A([1., 2], x=[1, 2])
    try:
        ds['b'] = A([[1., 2]], new=[7], x=[5, 6])
    except ValueError:
        pass
    return ds.dims == ('x',)

@demo('F9')
def f9():
    ds = Dataset(); ds['a'] = A([1., 2], x=[1, 2])
    ds.axes[0] = Axis([5, 6], 'x')
    return ds['a'].axes['x'] is ds.axes['x']

@demo('F10')
def f10():
    ds = Dataset(); ds['a'] = A([1., 2], x=[1, 2]); ds['b'] = A([1., 2, 3], y=[1, 2, 3])
    r = ds.reindex_axis([1, 2, 7], 'x')
    return r['a'].shape == (3,) and r['b'].shape == (3,)

@demo('F11')
def f11():
    a = A([[1., 2, 3], [4, 5, 6]], x=[1, 2], y=[1, 2, 3])
    f = a.flatten(('y', 'x'))
    return f.dims == ('y,x',) and list(f.values) == [1, 4, 2, 5, 3, 6]

@demo('F12')
def f12():
    c = DimArray(np.array([5.]), axes=[Axis([0], 'x,y')])
    c.reshape(())
    return c.dims == ('x,y',)

@demo('F12b')
def f12b():
    c = DimArray(np.zeros((1, 2)), axes=[Axis([0], 'a,b'), Axis([0, 1], 'c')])
    try:
        c.reshape('c', 'zz,c')
    except Exception:
        pass
    return c.dims == ('a,b', 'c')

@demo('F13')
def f13():
    ax = Axis([1, 2], 'x'); ax.attrs['u'] = 1
    b = ax.set(attrs={'v': 2}, inplace=False)
    return ax.attrs == {'u': 1} and b.attrs == {'v': 2}

@demo('F14')
def f14():
    a = A([1., 2], x=[1, 2])
    try:
        a.axes = [Axis([1, 2, 3], 'x')]
    except Exception:
        return True
    return False

@demo('F15')
def f15():
    a = DimArray(np.array([[1.], [2.]]), axes=[np.array(['a', 'b'], dtype=object), np.array([5.])], dims=['k', 'x'])
    r = a.interp_axis([4., 5., 6.], axis='x', left=-1., right=-2.)
    return list(r.values[0]) == [-1., 1., -2.]

@demo('F16')
def f16():
    a = A([[1., 2], [3, 4]], x=[1, 2], y=[1, 2]); a.attrs['units'] = 'm'
    return da.percentile(a, 50, axis='x').attrs == {'units': 'm'} and da.percentile(a, [50, 90], axis='x').attrs == {'units': 'm'}

@demo('F17')
def f17():
    a = A([[1., 2], [3, 4]], x=[1, 2], y=[1, 2])
    f = a.flatten()
    return f.ix[[0, 3]].values.tolist() == [1., 4.]
